#!/bin/bash
# Offline build of the analysis interpreter: an overlay venv on top of /venv
# (python 3.12 + ruamel.yaml) with crosshair-tool + z3-solver from the wheelhouse,
# and /repo on sys.path so that the working tree's yamlpath is what gets analysed.
set -euo pipefail
cd "$(dirname "$0")"
VENV=/verif/.venv
STAMP=$VENV/.ok
if [ -f "$STAMP" ] && "$VENV/bin/python" -c 'import crosshair, z3, ruamel.yaml, yamlpath' 2>/dev/null; then
    exit 0
fi
rm -rf "$VENV"
/venv/bin/python -m venv "$VENV"
SP=$("$VENV/bin/python" -c 'import sysconfig; print(sysconfig.get_paths()["purelib"])')
printf '%s\n%s\n' "import site; site.addsitedir('/venv/lib/python3.12/site-packages')" "/repo" > "$SP/verif_overlay.pth"
PIP_NO_INDEX=1 "$VENV/bin/python" -m pip install --quiet --no-index --find-links /opt/veriftools/wheels crosshair-tool z3-solver
"$VENV/bin/python" -c 'import crosshair, z3, ruamel.yaml, yamlpath; assert yamlpath.__file__.startswith("/repo/"), yamlpath.__file__'
touch "$STAMP"
