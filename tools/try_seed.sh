#!/bin/bash
# tools/try_seed.sh <worktree> <Cxx> [tier] [--only regex]  : run a check against a scratch worktree (development aid)
wt=$1; id=$2; tier=${3:-quick}; shift 3 2>/dev/null
cd "$(dirname "$0")/.."
VERIF_REPO=$wt VERIF_NO_RETRY=1 ./check $id $tier "$@" 2>&1 | grep -E "^(VIOLATION|INCONCLUSIVE|HARNESS|KNOWN|C[0-9]+ (quick|thorough):)" | cut -c1-220
