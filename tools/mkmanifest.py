#!/usr/bin/env python3
"""Regenerate MANIFEST.json from the table below (kept in one place so it stays valid)."""
import json, os
ROOT = os.path.dirname(os.path.dirname(os.path.abspath(__file__)))
TECH = "bounded symbolic execution of the real yamlpath functions (CrossHair 0.0.110 + z3 5.1.0): path-tree exhaustion = solver verdict over all inputs within the pre: bounds; counterexamples replayed concretely"
NOTE_COMMON = ("Trusted: CrossHair's symbolic models + path-exhaustion bookkeeping, z3, the engine prelude (vf/prelude.py), "
               "the reference models/stubs named in the evidence file. Bounds (int ranges, string lengths, shapes/templates "
               "catalogues) are listed per query in the evidence; nothing is claimed outside them. ")
CHECKS = {}
NA = {}
exec(open(os.path.join(ROOT, "tools", "manifest_table.py")).read())
checks = []
for pid in sorted(CHECKS):
    c = CHECKS[pid]
    checks.append({
        "property_id": pid,
        "quick_cmd": "./check %s quick" % pid,
        "thorough_cmd": "./check %s thorough" % pid,
        "evidence_file": "/verif/evidence/%s.json" % pid,
        "replay_cmd_template": "./check %s --replay {path}" % pid,
        "engine": "crosshair-z3",
        "level_claimed": {"category": "model_checking", "text": c["text"], "design_ref": c.get("ref", "DESIGN.md section 5, " + pid)},
        "level_note": NOTE_COMMON + c.get("note", ""),
        "technique": c.get("technique", TECH),
    })
man = {
    "version": 1,
    "setup_cmd": "./setup.sh",
    "hooks": {"guard": "YAMLPATH_VERIF", "enable": "no source hooks are needed: the harness imports /repo's working tree directly (overlay venv .pth); the guard variable is reserved and unused",
              "baseline_off_cmd": "cd /repo && /venv/bin/python -m pytest -ra -q -p no:cacheprovider --timeout=900 --continue-on-collection-errors",
              "source_commits": [], "add_only": True},
    "engines": [{"name": "crosshair-z3", "path": "/verif/vf", "serves_properties": sorted(CHECKS),
                 "kind_free_text": "symbolic execution of CPython bytecode of /repo's yamlpath with z3 deciding every branch; shard scheduler, concrete replay, known-findings handling in vf/runner.py"}],
    "checks": checks,
    "not_applicable": [{"property_id": k, "reason": v} for k, v in sorted(NA.items())],
    "notes": "Exit codes of every check: 0 property held on everything explored (KNOWN-FINDING lines allowed), 1 VIOLATION (replayed concretely), 2 some query inconclusive (never reported as success), 3 a solver counterexample did not replay (engine/harness error). See DESIGN.md.",
}
json.dump(man, open(os.path.join(ROOT, "MANIFEST.json"), "w"), indent=1)
print("wrote MANIFEST.json with", len(checks), "checks,", len(NA), "not applicable")
