#!/bin/bash
# Run every registered check's tier once, in order; prints one summary line per property.
tier=${1:-quick}
cd "$(dirname "$0")/.."
for id in C01 C02 C03 C04 C05 C06 C07 C08 C09 C10 C11 C12 C13 C14 C15 C16 C17 C18 C19; do
    start=$(date +%s)
    ./check $id $tier > /tmp/verif_run_$id.log 2>&1
    rc=$?
    echo "$id rc=$rc $(( $(date +%s) - start ))s :: $(grep -E "^$id $tier:" /tmp/verif_run_$id.log | tail -1)"
    grep -E "^(VIOLATION|INCONCLUSIVE|HARNESS-ERROR)" /tmp/verif_run_$id.log | head -5
done
