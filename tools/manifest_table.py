# property table for tools/mkmanifest.py  (CHECKS: claimed; NA: not claimed (yet) with reason)
CHECKS["C14"] = dict(
    text="Crash-freedom/totality of the path parser: whole-parse of every text up to length 2 (quick) / 3 (thorough) under the three separator settings, plus an inductive step over the real loop body of _parse_path (cut from /repo's AST at run time) from an arbitrary bounded parser state for each incoming character class, plus the epilogue and a structural termination check. A solver verdict over all values in the bounds is the right level for a hand-written state machine whose crashes sit at rare state/character meetings.",
    note="C14 only: int(<symbolic str>) over-approximated (ValueError or arbitrary int); enum locals lazily decoded in the cut step; state bounds |segment_id|<=3, |search_attr|<=1, stack depth<=2.")
_PENDING = "check under construction in this round; not claimed until its harness confirms on the unchanged tree"
for _p in ["C01","C02","C03","C04","C05","C06","C07","C08","C09","C10","C11","C12","C13","C15","C16","C17","C18","C19"]:
    NA[_p] = _PENDING
CHECKS["C15"] = dict(
    text="Crash-freedom of path evaluation: for each (document shape, path template) shard the real Processor.get_nodes (required and optional match) and exists() are executed symbolically on path TEXT built from symbolic indexes/slice bounds in [-6,6] and documents with symbolic integer leaves; any exception outside the YAMLPathException family on any feasible path is a counterexample, replayed concretely. Crossing shapes with templates under a solver finds the index/None/type pairings that examples miss.",
    note="Shapes: vf/docs.py (28); templates: harness/qcommon.py (67); quick = 39 chosen pairs, thorough = full product. Leaves that the implementation stringifies or hashes are enumerated over small ranges (stated per query).")
del NA["C15"]
CHECKS["C12"] = dict(
    text="Typed comparison rules: Searches.search_matches is executed symbolically for every integer value in [-99,99] against a pool of term spellings for the 8 non-regex operators and compared with a reference model transcribed from the documented rules; short symbolic text values against concrete terms; boolean spellings, regex and containment on finite pools enumerated through the solver; inversion through the real Processor on lists/AoH with 3 symbolic leaves (plain and inverted results partition the candidates in document order); never-raises over pool x pool.",
    note="Text values are short (<=2 letters quick, <=3 thorough) because str.lower()/title() are modelled over the whole Unicode table; regex/containment/floats only from pools (engine limits). Undocumented typing corners are excluded from the functional claim and listed in evidence.outside_claim.")
del NA["C12"]
CHECKS["C13"] = dict(
    text="Keyword semantics: [max()], [min()], [unique()], [distinct()], [has_child()], [parent(n)], [name()] are evaluated through the real Processor on lists (n<=4, optional null), Arrays-of-Hashes and hashes-of-hashes whose members have/lack the attribute (all presence patterns), with symbolic integer leaves, and compared as multisets of positions with a definitional model (extreme value incl. ties, occurrence counts, first-of-group, key presence, n-th ancestor identity, refusal above the root).",
    note="Leaves in [-9,9] for max/min (all orderings/ties of <=4 members realisable), [-1,1] for unique/distinct because the implementation hashes them; text/float members and null attribute values are outside.")
del NA["C13"]
CHECKS["C01"] = dict(
    text="Query semantics vs a reference evaluator: for each (document shape, path template) shard the real parser + Processor.get_nodes(mustexist=True) run symbolically on path text with symbolic indexes/bounds/terms and documents with symbolic integer leaves; the result sequence must equal the README-derived model's coordinates (parent identity, key/index, order, nothing extra or missing), in dot and slash notation, and exists() / optional-match must agree. The model is validated at every run against the (document, path, values) triples of tests/test_processor.py.",
    note="Only combinations the README defines are asserted (the model raises Undefined otherwise - listed in evidence.outside_claim). Templates: harness/c01.py (47); shapes: vf/docs.py; quick = 30 pairs, thorough = applicability product (~400 queries).")
del NA["C01"]
CHECKS["C02"] = dict(
    text="Result coordinates: for the C01 shape x template shards plus keyword templates (has_child, max/min, unique/distinct, parent) and a pool of keys holding every escapable character, every non-virtual result of the real Processor.get_nodes must satisfy parent[parentref] is node, an ancestry chain that walks from the document root to the parent, and a reported path that - re-queried on the same document in dot and in slash notation - resolves to exactly that node once. Oracle = the document itself.",
    note="Virtual results (slices, collectors, name()) are skipped as the property says; anchored nodes are not reachable symbolically (C-constructed scalars) and are covered by C07's pooled shards.")
del NA["C02"]
CHECKS["C09"] = dict(
    text="Read purity and exact creation: (a) a deep snapshot (structure, values, key order, container identities) taken around get_nodes(mustexist=True), exists() and optional-match on an existing path must be unchanged, for C01 templates and collector expressions with +, -, & over symbolic leaves; (b) set_value / optional-match on straight key/index paths with a missing tail (depth 1-3, symbolic index and value) must produce exactly the model document: missing tail added, lists padded to exactly the requested index, every pre-existing node unchanged.",
    note="Pad slot values are not asserted. The supplied value ranges over [-1,1] because the implementation wraps it in a C-constructed ruamel scalar (finite realisation).")
del NA["C09"]
CHECKS["C04"] = dict(
    text="Delete exactness: for shape x template shards (indexes incl. negative, slices, searches, wildcards, deep traversal, AoH pass-through, duplicates through collector addition, empty-container targets) the real Processor.delete_nodes runs symbolically and the resulting document must equal a plain-data model with exactly the positions selected by the C01 reference model removed and everything else in its original order; deleting the root is refused and leaves the document unchanged; delete_gathered_nodes over two gathered elements.",
    note="Which nodes a path matches is taken from the C01 reference model (validated against the repository's tests).")
del NA["C04"]
CHECKS["C03"] = dict(
    text="Set exactness: (frame) for shape x template shards the real Processor.set_value runs symbolically with symbolic leaves, index and new value; the document afterwards must equal the model 'matched positions (from the C01 reference model) hold the new value, everything else - values, order, keys - unchanged'; (pool) leaves drawn by selectors from a pool of real Python objects so that equal scalars share one object and values are spelled like keys - only the addressed position may change; (alias) an anchored scalar aliased under keys and inside lists is updated at every alias position through any of its paths, keeps its anchor and stays one shared node; (history) 2-step set/create/delete histories vs a plain-data model. Pool, alias and history shards dump the result with yamlpath's editor and reload it with its strict loader (concrete, on every explored path).",
    note="Object identity of interned scalars cannot be a solver term: the pool/alias shards are solver-enumerated finite spaces (stated in evidence as kind S). New value in [-1,1] (C-constructed ruamel scalar).")
del NA["C03"]
