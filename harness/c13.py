"""C13 - search keywords select by their definitions."""
from typing import List

from yamlpath import Processor
from yamlpath.exceptions import YAMLPathException

from vf.common import LOG, cmap, cseq
from vf.shard import shard, note

PID = "C13"
FILES = ["yamlpath/common/keywordsearches.py", "yamlpath/path/searchkeywordterms.py", "yamlpath/processor.py",
         "yamlpath/common/searches.py", "yamlpath/common/nodes.py"]
FUNCTIONS = ["KeywordSearches.search_matches/max/min/unique/distinct/has_child/_has_concrete_child/parent/name",
             "SearchKeywordTerms.parameters", "Processor._get_nodes_by_keyword_search", "Processor.get_nodes (path as text)",
             "Searches.search_matches (tie/extreme comparisons)"]
STUBS = []
OUTSIDE = ["collections of more than 4 members; leaves outside [-9,9] (max/min) or [-1,1] (unique/distinct: values are "
           "hashed by the implementation); text and float members; null-valued attributes under max/min; parent(n) with "
           "n < 0; anchored has_child(&name); results of inverted keywords are compared as multisets (no order stated)"]
ASSUMPTIONS = ["reference model = definitional multiset semantics from the property statement"]


def _pos(proc, path, container):
    """Multiset (sorted list) of positions inside `container`, or None if a result is not a member of it."""
    out = []
    for nc in proc.get_nodes(path, mustexist=True):
        if nc.parent is not container:
            return None
        if container[nc.parentref] is not nc.node and container[nc.parentref] != nc.node:
            return None
        out.append(nc.parentref)
    return sorted(out)


def _want_extreme(vals, greatest, inv):
    present = [v for v in vals if v is not None]
    if not present:
        return None
    ext = present[0]
    for v in present:
        if (v > ext) if greatest else (v < ext):
            ext = v
    hit = [i for i, v in enumerate(vals) if v is not None and v == ext]
    if inv:
        return [i for i in range(len(vals)) if i not in hit]
    return hit


def _count(vals, v):
    n = 0
    for x in vals:
        if x == v:
            n += 1
    return n


def list_kw(kw: str, inv: bool, n: int, nullpos: int, a: int, b: int, c: int, d: int) -> bool:
    """l[kw()] on a list of n scalars (optionally one null) equals the definitional selection."""
    vals = [a, b, c, d][:n]
    if 0 <= nullpos < n:
        vals[nullpos] = None
    lst = cseq(*vals)
    doc = cmap(("k", 0), ("l", lst))
    path = "l[" + ("!" if inv else "") + kw + "()]"
    note(document={"k": 0, "l": vals}, path=path)
    proc = Processor(LOG, doc)
    try:
        got = _pos(proc, path, lst)
    except YAMLPathException:
        got = []
    if kw == "max" or kw == "min":
        want = _want_extreme(vals, kw == "max", inv)
        if want is None:
            return True
    elif kw == "unique":
        want = [i for i, v in enumerate(vals) if (_count(vals, v) > 1) == inv]
    else:  # distinct
        want = [i for i, v in enumerate(vals) if v not in vals[:i]]
    note(observed=got, expected=sorted(want))
    return got == sorted(want)


def aoh_kw(kw: str, inv: bool, h0: bool, h1: bool, h2: bool, a: int, b: int, c: int) -> bool:
    """w[kw(v)] on an Array-of-Hashes whose members have / lack attribute v."""
    eles = []
    vals = []
    for i, (has, v) in enumerate(((h0, a), (h1, b), (h2, c))):
        e = cmap(("n", i))
        if has:
            e["v"] = v
        eles.append(e)
        vals.append(v if has else None)
    lst = cseq(*eles)
    doc = cmap(("w", lst))
    path = "w[" + ("!" if inv else "") + kw + "(v)]"
    note(document={"w": [dict(e) for e in eles]}, path=path)
    proc = Processor(LOG, doc)
    try:
        got = _pos(proc, path, lst)
    except YAMLPathException:
        got = []
    present = [v for v in vals if v is not None]
    if kw == "max" or kw == "min":
        want = _want_extreme(vals, kw == "max", inv)
        if want is None:
            want = [0, 1, 2] if inv else []
    elif kw == "unique":
        want = [i for i, v in enumerate(vals) if v is not None and (_count(present, v) > 1) == inv]
    elif kw == "distinct":
        want = [i for i, v in enumerate(vals) if v is not None and v not in [x for x in vals[:i] if x is not None]]
    else:  # has_child
        want = [i for i, v in enumerate(vals) if (v is not None) != inv]
    note(observed=got, expected=sorted(want))
    return got == sorted(want)


def hoh_kw(kw: str, inv: bool, h0: bool, h1: bool, h2: bool, a: int, b: int, c: int) -> bool:
    """t[kw(v)] on a hash of hashes: positions are the child keys."""
    kids = []
    vals = []
    for key, has, v in (("x", h0, a), ("y", h1, b), ("z", h2, c)):
        e = cmap(("n", key))
        if has:
            e["v"] = v
        kids.append((key, e))
        vals.append(v if has else None)
    t = cmap(*kids)
    doc = cmap(("t", t))
    path = "t[" + ("!" if inv else "") + kw + "(v)]"
    note(document={"t": {k: dict(e) for k, e in kids}}, path=path)
    proc = Processor(LOG, doc)
    try:
        got = _pos(proc, path, t)
    except YAMLPathException:
        got = []
    keys = ["x", "y", "z"]
    present = [v for v in vals if v is not None]
    if kw == "max" or kw == "min":
        w = _want_extreme(vals, kw == "max", inv)
        if w is None:
            w = [0, 1, 2] if inv else []
    elif kw == "unique":
        w = [i for i, v in enumerate(vals) if v is not None and (_count(present, v) > 1) == inv]
    else:
        w = [i for i, v in enumerate(vals) if v is not None and v not in [x for x in vals[:i] if x is not None]]
    want = sorted(keys[i] for i in w)
    note(observed=got, expected=want)
    return got == want


def null_attr_kw(kw: str, inv: bool, hoh: bool, n0: bool, n1: bool, n2: bool, a: int, b: int) -> bool:
    """unique / distinct / has_child where the attribute is present but NULL in some members: a null is a value
    like any other (present), so two nulls are not unique and a member with a null attribute has the child."""
    vals = [None if n0 else a, None if n1 else b, None if n2 else a]
    kids = [(k, cmap(("n", k), ("v", v))) for k, v in zip(("x", "y", "z"), vals)]
    if hoh:
        cont = cmap(*kids)
        doc = cmap(("t", cont))
        path = "t[" + ("!" if inv else "") + kw + "(v)]"
        refs = ["x", "y", "z"]
    else:
        cont = cseq(*[e for _k, e in kids])
        doc = cmap(("t", cont))
        path = "t[" + ("!" if inv else "") + kw + "(v)]"
        refs = [0, 1, 2]
    note(values=vals, path=path, hash_of_hashes=hoh)
    proc = Processor(LOG, doc)
    try:
        got = _pos(proc, path, cont)
    except YAMLPathException:
        got = []
    if kw == "unique":
        w = [i for i, v in enumerate(vals) if (_count(vals, v) > 1) == inv]
    elif kw == "distinct":
        w = [i for i, v in enumerate(vals) if v not in vals[:i]]
    else:
        w = [0, 1, 2] if not inv else []
    want = sorted(refs[i] for i in w)
    note(observed=got, expected=want)
    return got == want


TEXTS = ["a", "ab", "b", "B", "abc"]


BIGINTS = [2 ** 53, 2 ** 53 + 1, 2 ** 53 + 2, 10 ** 18 + 1, -(2 ** 53) - 1]


def list_kw_text(kw: str, inv: bool, k: int, big: bool = False) -> bool:
    """max/min/unique/distinct over a list of TEXT values (pooled): lexicographic extremes, ties, repeats.
    With big=True the pool holds integers beyond 2**53 whose neighbours collapse when converted to float."""
    from crosshair import realize
    k = realize(k)
    TEXTS = BIGINTS if big else globals()["TEXTS"]
    n = len(TEXTS)
    vals = [TEXTS[k % n], TEXTS[(k // n) % n], TEXTS[(k // (n * n)) % n]]
    lst = cseq(*vals)
    doc = cmap(("l", lst))
    path = "l[" + ("!" if inv else "") + kw + "()]"
    note(values=vals, path=path)
    proc = Processor(LOG, doc)
    try:
        got = _pos(proc, path, lst)
    except YAMLPathException:
        got = []
    if kw in ("max", "min"):
        want = _want_extreme(vals, kw == "max", inv)
    elif kw == "unique":
        want = [i for i, v in enumerate(vals) if (_count(vals, v) > 1) == inv]
    else:
        want = [i for i, v in enumerate(vals) if v not in vals[:i]]
    note(observed=got, expected=sorted(want))
    return got == sorted(want)


def repeated_kw(kw: str, inv: bool, a: int, b: int, c: int) -> bool:
    """A keyword segment evaluated for several collections in one query (wildcard in front), and one YAMLPath
    object used for two queries, answers each evaluation like the first."""
    from yamlpath import YAMLPath
    def aoh(x, y):
        return cseq(cmap(("v", x)), cmap(("v", y)), cmap(("v", x)))
    s1, s2 = aoh(a, b), aoh(b, c)
    doc = cmap(("stores", cmap(("one", cmap(("items", s1))), ("two", cmap(("items", s2))))))
    path = YAMLPath("stores.*.items[" + ("!" if inv else "") + kw + "(v)]")
    proc = Processor(LOG, doc)

    def want_for(x, y):
        vals = [x, y, x]
        if kw == "unique":
            return [i for i, v in enumerate(vals) if (_count(vals, v) > 1) == inv]
        if kw == "distinct":
            return [i for i, v in enumerate(vals) if v not in vals[:i]]
        return _want_extreme(vals, kw == "max", inv)
    want = [(id(s1), i) for i in sorted(want_for(a, b))] + [(id(s2), i) for i in sorted(want_for(b, c))]
    for _round in range(2):
        try:
            got = [(id(nc.parent), nc.parentref) for nc in proc.get_nodes(path, mustexist=True)]
        except YAMLPathException:
            got = []
        g1 = sorted(x for x in got if x[0] == id(s1))
        g2 = sorted(x for x in got if x[0] == id(s2))
        note(round=_round, observed_one=[x[1] for x in g1], observed_two=[x[1] for x in g2])
        if g1 + g2 != [w for w in want if w[0] == id(s1)] + [w for w in want if w[0] == id(s2)] or len(got) != len(want):
            return False
    return True


def has_child_hash(inv: bool, has: bool, a: int) -> bool:
    """h[has_child(v)] on a single hash yields the hash itself exactly when it has (lacks, inverted) the key."""
    h = cmap(("n", 1))
    if has:
        h["v"] = a
    doc = cmap(("h", h), ("z", 0))
    path = "h[" + ("!" if inv else "") + "has_child(v)]"
    proc = Processor(LOG, doc)
    try:
        got = [nc for nc in proc.get_nodes(path, mustexist=True)]
    except YAMLPathException:
        got = []
    note(path=path, has=has, n=len(got))
    if has != inv:
        return len(got) == 1 and got[0].node is h and got[0].parent is doc and got[0].parentref == "h"
    return got == []


def parent_n(n: int, depth: int, a: int) -> bool:
    """<path>[parent(n)] yields the n-th ancestor; above the root is refused with a YAML Path error."""
    x = cmap(("p", a), ("q", 0))
    t = cmap(("x", x), ("y", 1))
    doc = cmap(("t", t), ("u", 2))
    chain = [doc, t, x, a]          # ancestors from the root down to the leaf
    base = ["t", "t.x", "t.x.p"][depth - 1]
    path = base + "[parent(" + str(n) + ")]"
    note(path=path)
    proc = Processor(LOG, doc)
    try:
        got = [nc for nc in proc.get_nodes(path, mustexist=True)]
        err = False
    except YAMLPathException:
        got = []
        err = True
    if n > depth:
        return err
    if err or len(got) != 1:
        return False
    want = chain[depth - n]
    nc = got[0]
    if isinstance(want, int):
        return nc.node == want and nc.parent is x
    if nc.node is not want:
        return False
    if depth - n == 0:
        return nc.parent is None
    return nc.parent is chain[depth - n - 1] and nc.parent[nc.parentref] is want


def parent_default(a: int) -> bool:
    """[parent()] without a parameter is one step."""
    x = cmap(("p", a))
    doc = cmap(("t", cmap(("x", x))))
    proc = Processor(LOG, doc)
    got = [nc for nc in proc.get_nodes("t.x.p[parent()]", mustexist=True)]
    return len(got) == 1 and got[0].node is x


def name_kw(i: int, a: int, b: int, c: int) -> bool:
    """[name()] yields the key or index under which the current node is held."""
    lst = cseq(a, b, c)
    doc = cmap(("t", cmap(("x", a))), ("l", lst))
    proc = Processor(LOG, doc)
    got = [nc.node for nc in proc.get_nodes("t.x[name()]", mustexist=True)]
    if got != ["x"]:
        return False
    got2 = [nc.node for nc in proc.get_nodes("l[" + str(i) + "][name()]", mustexist=True)]
    note(i=i, observed=got2)
    return got2 == [i]


def shards(tier, seed):
    out = []
    ns = [3] if tier == "quick" else [1, 2, 3, 4]
    for kw in ("max", "min", "unique", "distinct"):
        rng = "-9 <= {0} <= 9" if kw in ("max", "min") else "-1 <= {0} <= 1"
        pre_leaves = " and ".join(rng.format(v) for v in "abcd")
        for n in ns:
            for inv in ((False, True) if kw != "distinct" else (False,)):
                nulls = "nullpos == -1" if (tier == "quick" and n != 3) else "-1 <= nullpos < %d" % n
                if n == 4:
                    nulls = "nullpos == -1"
                out.append(shard(PID, "list/%s%s/n%d" % ("not_" if inv else "", kw, n), "harness.c13",
                                 "list_kw(%r, %r, %d, nullpos, a, b, c, d)" % (kw, inv, n),
                                 [("nullpos", "int"), ("a", "int"), ("b", "int"), ("c", "int"), ("d", "int")],
                                 [nulls, pre_leaves], family="list", budget=900,
                                 desc="l[%s%s()] over %d scalars (one may be null)" % ("!" if inv else "", kw, n),
                                 bounds={"leaves": rng.format("leaf"), "nullpos": nulls}))
    for kw in ("max", "min", "unique", "distinct", "has_child"):
        rng = "-9 <= {0} <= 9" if kw in ("max", "min", "has_child") else "-1 <= {0} <= 1"
        pre_leaves = " and ".join(rng.format(v) for v in "abc")
        for inv in ((False, True) if kw != "distinct" else (False,)):
            out.append(shard(PID, "aoh/%s%s" % ("not_" if inv else "", kw), "harness.c13",
                             "aoh_kw(%r, %r, h0, h1, h2, a, b, c)" % (kw, inv),
                             [("h0", "bool"), ("h1", "bool"), ("h2", "bool"), ("a", "int"), ("b", "int"), ("c", "int")],
                             [pre_leaves], family="aoh", budget=900,
                             desc="w[%s%s(v)] over 3 hashes having/lacking v" % ("!" if inv else "", kw),
                             bounds={"leaves": rng.format("leaf"), "presence": "all 8 patterns"}))
            if kw != "has_child" and (tier == "thorough" or kw in ("max", "min")):
                out.append(shard(PID, "hoh/%s%s" % ("not_" if inv else "", kw), "harness.c13",
                                 "hoh_kw(%r, %r, h0, h1, h2, a, b, c)" % (kw, inv),
                                 [("h0", "bool"), ("h1", "bool"), ("h2", "bool"), ("a", "int"), ("b", "int"),
                                  ("c", "int")], [pre_leaves], family="hoh", budget=900,
                                 desc="t[%s%s(v)] over a hash of 3 hashes" % ("!" if inv else "", kw)))
    for kw, invs in (("unique", (False, True)), ("distinct", (False,)), ("has_child", (False, True))):
        for inv in invs:
            for hoh in ((False, True) if tier == "thorough" or kw == "unique" else (False,)):
                out.append(shard(PID, "nullattr/%s%s/%s" % ("not_" if inv else "", kw, "hoh" if hoh else "aoh"), "harness.c13",
                                 "null_attr_kw(%r, %r, %r, n0, n1, n2, a, b)" % (kw, inv, hoh),
                                 [("n0", "bool"), ("n1", "bool"), ("n2", "bool"), ("a", "int"), ("b", "int")],
                                 ["-1 <= a <= 1 and -1 <= b <= 1"], family="nullattr", budget=900,
                                 desc="[%s%s(v)] where v is present but null in some members (%s)" % (
                                     "!" if inv else "", kw, "hash of hashes" if hoh else "Array-of-Hashes")))
    for kw, invs in (("max", (False, True)), ("min", (False, True)), ("unique", (False, True)), ("distinct", (False,))):
        for inv in invs:
            if tier == "quick" and (inv or kw == "distinct"):
                continue
            out.append(shard(PID, "text/%s%s" % ("not_" if inv else "", kw), "harness.c13", "list_kw_text(%r, %r, k)" % (kw, inv),
                             [("k", "int")], ["0 <= k < 125"], family="text", budget=900, kind="S",
                             desc="l[%s%s()] over three text values from a pool of 5 (selector)" % ("!" if inv else "", kw)))
    for kw, inv in (("max", False), ("min", False), ("min", True), ("unique", False)):
        out.append(shard(PID, "bigint/%s%s" % ("not_" if inv else "", kw), "harness.c13", "list_kw_text(%r, %r, k, True)" % (kw, inv),
                         [("k", "int")], ["0 <= k < 125"], family="text", budget=900, kind="S",
                         desc="l[%s%s()] over three integers from a pool of 5 beyond 2**53 (exact integer comparison; selector)"
                              % ("!" if inv else "", kw)))
    for kw, invs in (("unique", (False, True)), ("distinct", (False,)), ("max", (False,)), ("min", (True,))):
        for inv in invs:
            out.append(shard(PID, "repeated/%s%s" % ("not_" if inv else "", kw), "harness.c13",
                             "repeated_kw(%r, %r, a, b, c)" % (kw, inv), [("a", "int"), ("b", "int"), ("c", "int")],
                             ["-1 <= a <= 1 and -1 <= b <= 1 and -1 <= c <= 1"], family="repeated", budget=900,
                             desc="stores.*.items[%s%s(v)] over two Arrays-of-Hashes, asked twice with one YAMLPath object" % (
                                 "!" if inv else "", kw)))
    out.append(shard(PID, "has_child/hash", "harness.c13", "has_child_hash(inv, has, a)",
                     [("inv", "bool"), ("has", "bool"), ("a", "int")], ["-9 <= a <= 9"], family="has_child", budget=300,
                     desc="h[has_child(v)] / inverted on one hash"))
    for depth in (1, 2, 3):
        out.append(shard(PID, "parent/depth%d" % depth, "harness.c13", "parent_n(n, %d, a)" % depth,
                         [("n", "int"), ("a", "int")], ["0 <= n <= 5", "-9 <= a <= 9"], family="parent", budget=600,
                         desc="[parent(n)] from a node at depth %d, n in [0,5]" % depth))
    out.append(shard(PID, "parent/default", "harness.c13", "parent_default(a)", [("a", "int")], ["-9 <= a <= 9"],
                     family="parent", budget=300, desc="[parent()]"))
    out.append(shard(PID, "name", "harness.c13", "name_kw(i, a, b, c)",
                     [("i", "int"), ("a", "int"), ("b", "int"), ("c", "int")],
                     ["0 <= i <= 2", "-9 <= a <= 9 and -9 <= b <= 9 and -9 <= c <= 9"], family="name", budget=600,
                     desc="[name()] on a hash child and on list element i"))
    return out
