"""C01 - query results equal the documented segment semantics (also provides the engine for C02/C09)."""
from yamlpath import Processor, YAMLPath
from yamlpath.exceptions import YAMLPathException
from yamlpath.wrappers import NodeCoords

from vf import docs
from vf.common import LOG
from vf.model_query import ref_eval, Undefined, validate_against_repo_tests
from vf.shard import shard, note
from harness.qcommon import K, B, mkpath

PID = "C01"
FILES = ["yamlpath/processor.py", "yamlpath/common/searches.py", "yamlpath/common/nodes.py", "yamlpath/yamlpath.py",
         "yamlpath/wrappers/nodecoords.py"]
FUNCTIONS = ["Processor.get_nodes / exists / _get_required_nodes / _get_optional_nodes", "Processor._get_nodes_by_path_segment",
             "Processor._get_nodes_by_key / _by_index / _by_search / _by_traversal / _by_match_all(_filtered/_unfiltered)",
             "Searches.search_matches", "Nodes.typed_value", "Nodes.node_is_aoh", "YAMLPath parser (path as text, both notations)"]
STUBS = ["logger: real ConsolePrinter(quiet)"]
OUTSIDE = ["combinations the README does not define (reference model raises Undefined and the input is skipped): '.' search "
           "directly on an Array-of-Hashes, '**' followed by anything but a plain key, '*'/'**' over sets, mixed-sign "
           "slices, slices followed by a non-key segment, ordering/affix operators against null, text leaves that spell "
           "bool/None/numbers, float/bool leaves, anchors reached through merge keys, collectors and keywords (C09/C13/C15)",
           "shapes outside vf/docs.py, templates outside harness/c01.py TEMPLATES, leaves outside [-9,9], indexes outside [-6,6]"]
ASSUMPTIONS = ["reference model vf/model_query.py transcribes README 'Supported YAML Path Segments'; it is validated at run "
               "start against (document, path, expected values) triples taken from tests/test_processor.py"]

S = lambda attr, op, term, inv=False: ("search", attr, op, term, inv)   # noqa: E731


def _sb(attr, op, term, inv=False):
    return B("[" + attr + ("!" if inv else "") + op + term + "]")


# name -> (pieces(i,j), segs(i,j), uses_i, uses_j, description)
TEMPLATES = {
    "self": (lambda i, j: [], lambda i, j: [], False, False, "the focus itself"),
    "idx": (lambda i, j: [B("[" + str(i) + "]")], lambda i, j: [("idx", i)], True, False, "[i]"),
    "barekey": (lambda i, j: [K(str(i))], lambda i, j: [("key", str(i))], True, False, "bare integer key i"),
    "slice": (lambda i, j: [B("[" + str(i) + ":" + str(j) + "]")], lambda i, j: [("slice", i, j)], True, True, "[i:j]"),
    "slice_p": (lambda i, j: [B("[" + str(i) + ":" + str(j) + "]"), K("p")], lambda i, j: [("slice", i, j), ("key", "p")],
                True, True, "[i:j].p"),
    "idx_p": (lambda i, j: [B("[" + str(i) + "]"), K("p")], lambda i, j: [("idx", i), ("key", "p")], True, False, "[i].p"),
    "idx_idx": (lambda i, j: [B("[" + str(i) + "]"), B("[" + str(j) + "]")], lambda i, j: [("idx", i), ("idx", j)],
                True, True, "[i][j]"),
    "p": (lambda i, j: [K("p")], lambda i, j: [("key", "p")], False, False, "p (key / pass-through)"),
    "d_p": (lambda i, j: [K("d"), K("p")], lambda i, j: [("key", "d"), ("key", "p")], False, False, "d.p"),
    "nope": (lambda i, j: [K("nope")], lambda i, j: [("key", "nope")], False, False, "missing key"),
    "k1": (lambda i, j: [K("1")], lambda i, j: [("key", "1")], False, False, "key '1' (numeric key fallback)"),
    "hslice": (lambda i, j: [B("[a:q]")], lambda i, j: [("hslice", "a", "q")], False, False, "[a:q]"),
    "hslice2": (lambda i, j: [B("[p:p]")], lambda i, j: [("hslice", "p", "p")], False, False, "[p:p]"),
    "el_gt": (lambda i, j: [_sb(".", ">", "3")], lambda i, j: [S(".", ">", "3")], False, False, "[.>3]"),
    "el_ngt": (lambda i, j: [_sb(".", ">", "3", True)], lambda i, j: [S(".", ">", "3", True)], False, False, "[.!>3]"),
    "el_le": (lambda i, j: [_sb(".", "<=", "0")], lambda i, j: [S(".", "<=", "0")], False, False, "[.<=0]"),
    "el_ge": (lambda i, j: [_sb(".", ">=", "-2")], lambda i, j: [S(".", ">=", "-2")], False, False, "[.>=-2]"),
    "el_lt": (lambda i, j: [_sb(".", "<", "5")], lambda i, j: [S(".", "<", "5")], False, False, "[.<5]"),
    "el_eq": (lambda i, j: [_sb(".", "=", "2")], lambda i, j: [S(".", "=", "2")], False, False, "[.=2]"),
    "el_neq": (lambda i, j: [_sb(".", "=", "2", True)], lambda i, j: [S(".", "=", "2", True)], False, False, "[.!=2]"),
    "el_eqi": (lambda i, j: [_sb(".", "=", str(i))], lambda i, j: [S(".", "=", str(i))], True, False, "[.=i]"),
    "el_le_f": (lambda i, j: [_sb(".", "<=", "2.5")], lambda i, j: [S(".", "<=", "2.5")], False, False, "[.<=2.5]"),
    "el_ge_f": (lambda i, j: [_sb(".", ">=", "1.5")], lambda i, j: [S(".", ">=", "1.5")], False, False, "[.>=1.5]"),
    "el_nlt_f": (lambda i, j: [_sb(".", "<", "1.5", True)], lambda i, j: [S(".", "<", "1.5", True)], False, False, "[.!<1.5]"),
    "el_gt_f": (lambda i, j: [_sb(".", ">", "-0.5")], lambda i, j: [S(".", ">", "-0.5")], False, False, "[.>-0.5]"),
    "el_eq_f": (lambda i, j: [_sb(".", "=", "2.5")], lambda i, j: [S(".", "=", "2.5")], False, False, "[.=2.5]"),
    "el_eq_2": (lambda i, j: [_sb(".", "=", "2")], lambda i, j: [S(".", "=", "2")], False, False, "[.=2] (int term; 2.0 is not the same kind)"),
    "el_eq_2f": (lambda i, j: [_sb(".", "=", "2.0")], lambda i, j: [S(".", "=", "2.0")], False, False, "[.=2.0]"),
    "el_neq_1f": (lambda i, j: [_sb(".", "=", "1.0", True)], lambda i, j: [S(".", "=", "1.0", True)], False, False, "[.!=1.0]"),
    "el_ew_0": (lambda i, j: [_sb(".", "$", ".0")], lambda i, j: [S(".", "$", ".0")], False, False, "[.$.0]"),
    "el_le_2": (lambda i, j: [_sb(".", "<=", "2")], lambda i, j: [S(".", "<=", "2")], False, False, "[.<=2] (integer term, float values)"),
    "at_le_f": (lambda i, j: [_sb("p", "<=", "1.5")], lambda i, j: [S("p", "<=", "1.5")], False, False, "[p<=1.5]"),
    "at_nge_f": (lambda i, j: [_sb("p", ">=", "2.5", True)], lambda i, j: [S("p", ">=", "2.5", True)], False, False, "[p!>=2.5]"),
    "tx_sw": (lambda i, j: [_sb(".", "^", "a")], lambda i, j: [S(".", "^", "a")], False, False, "[.^a] (text)"),
    "tx_ew": (lambda i, j: [_sb(".", "$", "b")], lambda i, j: [S(".", "$", "b")], False, False, "[.$b] (text)"),
    "tx_has": (lambda i, j: [_sb(".", "%", "b")], lambda i, j: [S(".", "%", "b")], False, False, "[.%b] (text)"),
    "tx_nhas": (lambda i, j: [_sb(".", "%", "a", True)], lambda i, j: [S(".", "%", "a", True)], False, False, "[.!%a] (text)"),
    "tx_eq": (lambda i, j: [_sb(".", "=", "ab")], lambda i, j: [S(".", "=", "ab")], False, False, "[.=ab] (text)"),
    "tx_lt": (lambda i, j: [_sb(".", "<", "b")], lambda i, j: [S(".", "<", "b")], False, False, "[.<b] (text)"),
    "tx_ge": (lambda i, j: [_sb(".", ">=", "ab")], lambda i, j: [S(".", ">=", "ab")], False, False, "[.>=ab] (text)"),
    "el_eq_p": (lambda i, j: [_sb(".", "=", "p")], lambda i, j: [S(".", "=", "p")], False, False, "[.=p] (term names a key of a hash member)"),
    "el_neq_p": (lambda i, j: [_sb(".", "=", "p", True)], lambda i, j: [S(".", "=", "p", True)], False, False, "[.!=p]"),
    "el_sw": (lambda i, j: [_sb(".", "^", "-")], lambda i, j: [S(".", "^", "-")], False, False, "[.^-]"),
    "el_ew": (lambda i, j: [_sb(".", "$", "1")], lambda i, j: [S(".", "$", "1")], False, False, "[.$1]"),
    "el_has": (lambda i, j: [_sb(".", "%", "1")], lambda i, j: [S(".", "%", "1")], False, False, "[.%1]"),
    "el_eqx": (lambda i, j: [_sb(".", "=", "x")], lambda i, j: [S(".", "=", "x")], False, False, "[.=x]"),
    "el_gtx": (lambda i, j: [_sb(".", ">", "x")], lambda i, j: [S(".", ">", "x")], False, False, "[.>x] (non-numeric term)"),
    "at_gt": (lambda i, j: [_sb("p", ">", "2")], lambda i, j: [S("p", ">", "2")], False, False, "[p>2]"),
    "at_ngt": (lambda i, j: [_sb("p", ">", "2", True)], lambda i, j: [S("p", ">", "2", True)], False, False, "[p!>2]"),
    "at_eq": (lambda i, j: [_sb("p", "=", "1")], lambda i, j: [S("p", "=", "1")], False, False, "[p=1]"),
    "at_neq": (lambda i, j: [_sb("p", "=", "1", True)], lambda i, j: [S("p", "=", "1", True)], False, False, "[p!=1]"),
    "at_le": (lambda i, j: [_sb("p", "<=", "0")], lambda i, j: [S("p", "<=", "0")], False, False, "[p<=0]"),
    "at_gei": (lambda i, j: [_sb("p", ">=", str(i))], lambda i, j: [S("p", ">=", str(i))], True, False, "[p>=i]"),
    "at_gt_n": (lambda i, j: [_sb("p", ">", "2"), K("n")], lambda i, j: [S("p", ">", "2"), ("key", "n")], False, False,
                "[p>2].n"),
    "at_desc": (lambda i, j: [_sb("d.p", ">", "2")], lambda i, j: [S("d.p", ">", "2")], False, False, "[d.p>2]"),
    "at_ndesc": (lambda i, j: [_sb("d.p", ">", "2", True)], lambda i, j: [S("d.p", ">", "2", True)], False, False, "[d.p!>2]"),
    "key_sw": (lambda i, j: [_sb(".", "^", "p")], lambda i, j: [S(".", "^", "p")], False, False, "[.^p] (key names)"),
    "key_neq": (lambda i, j: [_sb(".", "=", "q", True)], lambda i, j: [S(".", "=", "q", True)], False, False, "[.!=q] (key names)"),
    "key_gt": (lambda i, j: [_sb(".", ">", "p")], lambda i, j: [S(".", ">", "p")], False, False, "[.>p] (key names)"),
    "p_el_gt": (lambda i, j: [K("p"), _sb(".", ">", "2")], lambda i, j: [("key", "p"), S(".", ">", "2")], False, False,
                "p[.>2] (pass-through then filter)"),
    "anc": (lambda i, j: [B("[&t]")], lambda i, j: [("anchor", "t")], False, False, "[&t] (anchor; every aliased place)"),
    "anc_k": (lambda i, j: [K("&t")], lambda i, j: [("anchor", "t")], False, False, "&t (anchor written as a key)"),
    "anc_n": (lambda i, j: [B("[&t]"), K("n")], lambda i, j: [("anchor", "t"), ("key", "n")], False, False, "[&t].n"),
    "anc_nope": (lambda i, j: [B("[&zz]")], lambda i, j: [("anchor", "zz")], False, False, "[&zz] (no such anchor)"),
    "star": (lambda i, j: [K("*")], lambda i, j: [("star",)], False, False, "*"),
    "star_p": (lambda i, j: [K("*"), K("p")], lambda i, j: [("star",), ("key", "p")], False, False, "*.p"),
    "star_at": (lambda i, j: [K("*"), _sb("p", ">", "2")], lambda i, j: [("star",), S("p", ">", "2")], False, False, "*[p>2]"),
    "star_idx": (lambda i, j: [K("*"), B("[" + str(i) + "]")], lambda i, j: [("star",), ("idx", i)], True, False, "*[i]"),
    "deep": (lambda i, j: [K("**")], lambda i, j: [("deep",)], False, False, "**"),
    "deep_p": (lambda i, j: [K("**"), K("p")], lambda i, j: [("deep",), ("key", "p")], False, False, "**.p"),
    "deep_p_el": (lambda i, j: [K("**"), K("p"), _sb(".", ">", "2")],
                  lambda i, j: [("deep",), ("key", "p"), S(".", ">", "2")], False, False, "**.p[.>2]"),
}


VALIDATIONS = [("reference model vs tests/test_processor.py::test_get_nodes triples", validate_against_repo_tests)]


class _Virtual:
    """Element of a virtual slice result: its parentref is the slice start by construction, so it is
    compared by parent identity, value and order only."""

    def __init__(self, nc):
        self.node, self.parent, self.parentref, self.path_segment = nc.node, nc.parent, None, nc.path_segment


def _flatten(results):
    """Unwrap virtual (slice) results one level."""
    out = []
    for nc in results:
        if isinstance(nc.node, list) and len(nc.node) > 0 and isinstance(nc.node[0], NodeCoords):
            out.extend(nc.node)      # slice elements carry their own coordinates
        elif isinstance(nc.node, list) and len(nc.node) == 0 and nc.path_segment is not None \
                and ":" in str(nc.path_segment[1]):
            continue      # empty virtual slice
        else:
            out.append(nc)
    return out


def _same(got, want):
    if len(got) != len(want):
        return False
    for nc, (wp, wr, wn) in zip(got, want):
        if wp is None:
            if nc.node is not wn and nc.node != wn:
                return False
            continue
        if nc.parent is not wp:
            return False
        ref = nc.parentref
        if isinstance(nc, _Virtual):
            if nc.node is not wn and nc.node != wn:
                return False
            continue
        if isinstance(wp, list):
            if not isinstance(ref, int) or isinstance(ref, bool):
                return False
            if ref % len(wp) != wr:
                return False
            node = nc.node
            if isinstance(node, list) and len(node) == 1 and not isinstance(wn, list):
                node = node[0]      # [i:i] wraps its single element
            if node is not wp[wr] and node != wp[wr]:
                return False
        elif isinstance(wp, dict):
            if ref != wr:
                return False
            if nc.node is not wp[wr] and nc.node != wp[wr]:
                return False
        else:
            if ref != wr:
                return False
    return True


def _show(coords):
    return [(type(p).__name__, r) for (p, r, _n) in coords]


def query_eq(shape: str, template: str, i: int, j: int, a: int, b: int, c: int, slash: bool) -> bool:
    """Required-match results == the reference model (identity, order); exists() and optional-match agree."""
    pieces_fn, segs_fn, _ui, _uj, _d = TEMPLATES[template]
    doc = docs.build(shape, a, b, c)
    foc = docs.focus(shape)
    segs = [("key", part) for part in foc.split(".") if part] + segs_fn(i, j)
    path = mkpath(foc, pieces_fn(i, j), slash)
    note(document=docs.describe(shape), leaves=[a, b, c], path=path)
    try:
        want = ref_eval(doc, segs)
    except Undefined:
        return True
    proc = Processor(LOG, doc)
    try:
        got = _flatten([nc for nc in proc.get_nodes(path, mustexist=True)])
    except YAMLPathException:
        got = []
    note(expected=_show(want), observed=[(type(nc.parent).__name__, nc.parentref) for nc in got])
    if not _same(got, want):
        return False
    if not want and any(sg[0] == "slice" for sg in segs):
        # an empty slice is still reported as one (empty) virtual result; whether that "exists" is not documented
        return True
    if proc.exists(path) != (len(want) > 0):
        note(exists_disagrees=True)
        return False
    if want:
        try:
            opt = _flatten([nc for nc in proc.get_nodes(path, mustexist=False)])
        except YAMLPathException:
            note(optional_raised=True)
            return False
        # "a path that already exists": the optional-match query had nothing to create, i.e. it returns as
        # many nodes as the required-match query (pass-through paths may exist in some branches only)
        if len(opt) == len(want) and not _same(opt, want):
            note(optional_differs=[(type(nc.parent).__name__, nc.parentref) for nc in opt])
            return False
    return True


def query_reuse(shape: str, template: str, other: str, i: int, a: int, b: int, c: int, slash: bool) -> bool:
    """One Processor and one YAMLPath object used for several queries in a row answer each like fresh ones:
    query, another path, exists(), the first query again (as object and as text, with a forced separator)."""
    from yamlpath.enums import PathSeparators
    pieces_fn, segs_fn = TEMPLATES[template][0], TEMPLATES[template][1]
    opieces_fn, osegs_fn = TEMPLATES[other][0], TEMPLATES[other][1]
    doc = docs.build(shape, a, b, c)
    foc = docs.focus(shape)
    fsegs = [("key", part) for part in foc.split(".") if part]
    path = mkpath(foc, pieces_fn(i, 0), slash)
    opath = mkpath(foc, opieces_fn(i, 0), not slash)
    note(document=docs.describe(shape), leaves=[a, b, c], first=path, second=opath)
    try:
        want = ref_eval(doc, fsegs + segs_fn(i, 0))
        owant = ref_eval(doc, fsegs + osegs_fn(i, 0))
    except Undefined:
        return True
    proc = Processor(LOG, doc)
    ypath = YAMLPath(path)

    def run(x, **kw):
        try:
            return _flatten([nc for nc in proc.get_nodes(x, mustexist=True, **kw)])
        except YAMLPathException:
            return []
    r1 = run(ypath)
    r2 = run(opath)
    e1 = proc.exists(ypath)
    r3 = run(ypath)
    r4 = run(ypath, pathsep=PathSeparators.FSLASH if not slash else PathSeparators.DOT)
    r5 = run(path)
    ok = _same(r1, want) and _same(r2, owant) and _same(r3, want) and _same(r4, want) and _same(r5, want)
    if want or not any(sg[0] == "slice" for sg in fsegs + segs_fn(i, 0)):
        ok = ok and (e1 == (len(want) > 0))
    return ok


REUSE_Q = [("ML3", "idx", "el_gt"), ("AOHX", "at_gt", "p"), ("AOH3", "p", "idx_p"), ("MM", "deep", "p"),
           ("HOH", "star_at", "star"), ("M3", "key_sw", "hslice"), ("LL", "star_idx", "idx")]


# (shape, template) pairs: quick set, the rest is the thorough product over the applicability table
LISTS = ["L3", "L2", "L1", "L0", "ML3", "ML4", "ML0", "LNULL"]
LIST_T = ["idx", "barekey", "slice", "el_gt", "el_ngt", "el_le", "el_ge", "el_lt", "el_eq", "el_neq", "el_sw",
          "el_ew", "el_has", "el_eqx", "el_gtx", "star", "deep", "self", "nope"]
AOHS = ["AOH3", "AOHX", "AOHN", "AOHP0", "AOHD"]
AOH_T = ["p", "idx_p", "slice_p", "at_gt", "at_ngt", "at_eq", "at_neq", "at_le", "at_gt_n", "at_desc", "at_ndesc",
         "p_el_gt", "star", "star_p", "star_at", "deep", "deep_p", "deep_p_el", "d_p", "idx", "slice", "nope"]
HASHES = ["M3", "M0", "MM", "MNULL", "MINT", "MSTRNUM", "HOH", "SCAL"]
HASH_T = ["p", "nope", "k1", "hslice", "hslice2", "key_sw", "key_neq", "key_gt", "at_gt", "at_ngt", "at_eq", "star",
          "star_p", "star_at", "deep", "deep_p", "self", "at_desc"]
FLOATS = [("LFLT", t) for t in ("el_eq_2", "el_eq_2f", "el_neq_1f", "el_ew_0", "el_le_f", "el_ge_f", "el_nlt_f", "el_gt_f", "el_eq_f", "el_le_2", "el_gt", "el_le", "idx", "deep")] + \
         [("AOHF", t) for t in ("at_le_f", "at_nge_f", "at_gt", "at_le", "p", "p_el_gt")]
TEXTS = [("LTXT", t) for t in ("tx_sw", "tx_ew", "tx_has", "tx_nhas", "tx_eq", "tx_lt", "tx_ge", "idx", "star")] + \
        [("MTXT", t) for t in ("tx_sw", "tx_eq", "tx_lt", "key_sw", "star", "deep")]
ANCHORS = [("LANC", "anc"), ("LANC", "anc_k"), ("LANC", "anc_nope"), ("LANC", "idx"), ("LANC", "star"), ("LANC1", "anc"),
           ("MANC", "anc"), ("MANC", "anc_k"), ("MANC", "star"), ("AANC", "anc"), ("AANC", "anc_n"), ("AANC", "p")]
OTHER = [("LMIX", "el_eq_p"), ("LMIX", "el_neq_p"), ("LHASH", "el_eq_p"), ("LMIX", "el_eqx"), ("LL", "idx_idx"), ("LL", "star_idx"), ("LL", "star"), ("LL", "deep"), ("LL", "idx"), ("LMIX", "idx"),
         ("LMIX", "p"), ("LMIX", "deep"), ("LMIX", "star"), ("LHASH", "p"), ("LHASH", "star_p"), ("LSTR", "idx"),
         ("LSTR", "deep"), ("SET", "p"), ("SET", "self"), ("SETI", "k1"), ("ROOTSCALAR", "self"), ("ROOTSCALAR", "el_gt"),
         ("SCAL", "el_gt"), ("SCAL", "el_eq"), ("L3", "el_eqi"), ("AOH3", "at_gei")]
QUICK = [("L3", "idx"), ("ML3", "barekey"), ("ML4", "slice"), ("L3", "el_gt"), ("ML3", "el_ngt"), ("LNULL", "el_eq"),
         ("L3", "el_has"), ("AOH3", "p"), ("AOHX", "at_gt"), ("AOHX", "at_ngt"), ("AOHN", "at_eq"), ("AOHP0", "p"),
         ("AOHD", "at_desc"), ("AOH3", "at_gt_n"), ("AOH3", "idx_p"), ("AOHX", "star_p"), ("AOHD", "deep_p"),
         ("M3", "key_sw"), ("M3", "hslice"), ("MM", "at_gt"), ("MINT", "k1"), ("HOH", "star_at"), ("MM", "deep"),
         ("LL", "idx_idx"), ("LMIX", "p"), ("M3", "star"), ("SCAL", "el_gt"), ("AOHX", "p_el_gt"), ("MSTRNUM", "k1"),
         ("AOH3", "slice_p"), ("LFLT", "el_le_f"), ("LFLT", "el_ge_f"), ("LFLT", "el_eq_2"), ("LFLT", "el_eq_2f"), ("LFLT", "el_neq_1f"), ("AOHF", "at_le_f"), ("AOHF", "at_nge_f"),
         ("LTXT", "tx_sw"), ("LTXT", "tx_lt"), ("LTXT", "tx_nhas"), ("LMIX", "el_eq_p"), ("LHASH", "el_eq_p"),
         ("LANC", "anc"), ("MANC", "anc"), ("AANC", "anc_n"), ("LANC1", "anc_k")]


def _mk(shape, template, tier):
    _pf, _sf, uses_i, uses_j, tdesc = TEMPLATES[template]
    params = []
    variants = [("", [])]
    if uses_i:
        params.append(("i", "int"))
    if uses_j:
        params.append(("j", "int"))
    two = uses_i and uses_j
    if two:
        variants = [("/nn", ["-6 <= i < 0", "-6 <= j < 0"]), ("/np", ["-6 <= i < 0", "0 <= j <= 6"]),
                    ("/pn", ["0 <= i <= 6", "-6 <= j < 0"]), ("/pp", ["0 <= i <= 6", "0 <= j <= 6"])]
    elif uses_i:
        variants = [("", ["-6 <= i <= 6"])]
        if template in ("el_eqi", "at_gei"):
            variants = [("", ["-2 <= i <= 2"])]     # a symbolic search *term* is realised per value (engine limit)
    fixed = two and tier == "quick"
    params += [("a", "int"), ("b", "int"), ("c", "int")] + ([] if fixed else [("slash", "bool")])
    call = "query_eq(%r, %r, %s, %s, a, b, c, %s)" % (shape, template, "i" if uses_i else "0", "j" if uses_j else "0",
                                                    "False" if fixed else "slash")
    out = []
    for suffix, ipre in variants:
        pre = list(ipre) + ["-9 <= a <= 9 and -9 <= b <= 9 and -9 <= c <= 9"]
        out.append(shard(PID, "q/%s/%s%s" % (shape, template, suffix), "harness.c01", call, params, pre,
                         family="q/%s/%s" % (shape, template), budget=900,
                         desc="%s  x  <focus>%s" % (docs.describe(shape), tdesc),
                         bounds={"i,j": "; ".join(ipre) or "unused", "a,b,c": "[-9,9]",
                                 "slash": "dot only" if fixed else "both notations"}))
    return out


def pairs(tier):
    if tier == "quick":
        return list(QUICK)
    out = []
    for s in LISTS:
        out += [(s, t) for t in LIST_T]
    for s in AOHS:
        out += [(s, t) for t in AOH_T]
    for s in HASHES:
        out += [(s, t) for t in HASH_T]
    out += OTHER + FLOATS + TEXTS + ANCHORS
    seen, uniq = set(), []
    for p in out + QUICK:
        if p not in seen:
            seen.add(p)
            uniq.append(p)
    return uniq


def shards(tier, seed):
    out = [x for s, t in pairs(tier) for x in _mk(s, t, tier)]
    for s, t, o in (REUSE_Q if tier == "thorough" else REUSE_Q[:4]):
        out.append(shard(PID, "reuse/%s/%s+%s" % (s, t, o), "harness.c01",
                         "query_reuse(%r, %r, %r, 1, a, b, c, slash)" % (s, t, o),
                         [("a", "int"), ("b", "int"), ("c", "int"), ("slash", "bool")],
                         ["-9 <= a <= 9 and -9 <= b <= 9 and -9 <= c <= 9"],
                         family="reuse", budget=900,
                         desc="one Processor + one YAMLPath object reused for 5 queries: %s then %s" % (t, o)))
    return out
