"""C09 - queries never modify the document; creation adds exactly the missing path."""
import copy

from yamlpath import Processor
from yamlpath.exceptions import YAMLPathException

from vf import docs
from vf.common import LOG, snapshot, plain, cmap, cseq
from vf.shard import shard, note
from harness.qcommon import K, B, mkpath
from harness import c01

PID = "C09"
FILES = ["yamlpath/processor.py", "yamlpath/common/nodes.py", "yamlpath/common/keywordsearches.py", "yamlpath/yamlpath.py"]
FUNCTIONS = ["Processor.get_nodes(mustexist=True/False)", "Processor.exists", "Processor._get_nodes_by_collector",
             "Processor._collector_addition/_collector_subtraction/_collector_intersection",
             "Processor._get_optional_nodes (missing-segment construction)", "Processor.set_value", "Nodes.build_next_node",
             "Nodes.append_list_element", "Nodes.wrap_type/make_new_node"]
STUBS = ["logger: real ConsolePrinter(quiet)"]
OUTSIDE = ["values of list pad slots below the requested index (not specified by the property)",
           "creation through search/wildcard/collector segments (refused or undefined); tails longer than 3",
           "shapes/templates outside the catalogues"]
ASSUMPTIONS = ["purity oracle: deep snapshot (structure, values, key order, container identities) before == after",
               "creation oracle: plain-data model of 'add exactly the missing tail' with wildcard pad slots"]

COLL = {
    # on MM = {h: {p: a, q: b}, g: {p: c}} (focus ""), HOH, L3, AOH3
    "h_minus_g": ("MM", "(h)-(g)"), "h_minus_gp": ("MM", "(h)-(g.p)"), "hp_plus_gp": ("MM", "(h.p)+(g.p)"),
    "h_and_g": ("MM", "(h)&(g)"), "hs_minus_gs": ("MM", "(h.*)-(g.*)"), "nested": ("MM", "((h.p)+(h.q))-(g.p)"),
    "hs_and_gs": ("MM", "(h.*)&(g.*)"), "h_plus_g_minus_g": ("MM", "(h)+(g)-(g)"),
    "l_minus_0": ("L3", "(*)-([0])"), "l_slice_plus": ("L3", "([0:2])+([1])"), "l_and": ("L3", "(*)&([1:3])"),
    "l_minus_gt": ("L3", "(*)-([.>3])"),
    "aoh_minus": ("AOH3", "(w[0])-(w[1])"), "aoh_p": ("AOH3", "(w.p)-(w[0].p)"), "aoh_and": ("AOH3", "(w.*)&(w[n=2])"),
    "hoh_minus": ("HOH", "(t.x)-(t.y)"), "hoh_star": ("HOH", "(t.*)-(t.y)"),
}


def _pure(doc, path):
    proc = Processor(LOG, doc)
    before = snapshot(doc)
    n = 0
    try:
        for _ in proc.get_nodes(path, mustexist=True):
            n += 1
    except YAMLPathException:
        n = 0
    if snapshot(doc) != before:
        note(mutated_by="get_nodes(mustexist=True)")
        return False
    try:
        proc.exists(path)
    except YAMLPathException:
        pass
    if snapshot(doc) != before:
        note(mutated_by="exists()")
        return False
    if n > 0:
        m = 0
        try:
            for _ in proc.get_nodes(path, mustexist=False):
                m += 1
        except YAMLPathException:
            pass
        # the path "already exists" when the optional-match query had nothing to create
        if m == n and snapshot(doc) != before:
            note(mutated_by="get_nodes(mustexist=False) on an existing path")
            return False
    return True


def pure_query(shape: str, template: str, i: int, j: int, a: int, b: int, c: int, slash: bool) -> bool:
    """A read through any C01 template leaves the document exactly as it was."""
    doc = docs.build(shape, a, b, c)
    path = mkpath(docs.focus(shape), c01.TEMPLATES[template][0](i, j), slash)
    note(document=docs.describe(shape), leaves=[a, b, c], path=path)
    return _pure(doc, path)


def pure_collector(name: str, a: int, b: int, c: int) -> bool:
    """A read through a collector expression leaves the document exactly as it was."""
    shape, path = COLL[name]
    doc = docs.build(shape, a, b, c)
    note(document=docs.describe(shape), leaves=[a, b, c], path=path)
    return _pure(doc, path)


# ----------------------------------------------------------------------------- creation
PAD = ("<pad>",)
# name -> (shape, pieces(i), model segments(i))    segments: ("k", key) / ("i", index)
CREATE = {
    "hash_x": ("M3", lambda i: [K("x")], lambda i: [("k", "x")]),
    "hash_x_y": ("M3", lambda i: [K("x"), K("y")], lambda i: [("k", "x"), ("k", "y")]),
    "hash_x_y_z": ("M3", lambda i: [K("x"), K("y"), K("z")], lambda i: [("k", "x"), ("k", "y"), ("k", "z")]),
    "hash_x_i": ("M3", lambda i: [K("x"), B("[" + str(i) + "]")], lambda i: [("k", "x"), ("i", i)]),
    "hash_x_i_y": ("M3", lambda i: [K("x"), B("[" + str(i) + "]"), K("y")], lambda i: [("k", "x"), ("i", i), ("k", "y")]),
    "nested_h_x": ("MM", lambda i: [K("x")], lambda i: [("k", "h"), ("k", "x")]),
    "nested_h_x_y": ("MM", lambda i: [K("x"), K("y")], lambda i: [("k", "h"), ("k", "x"), ("k", "y")]),
    "list_i": ("ML3", lambda i: [B("[" + str(i) + "]")], lambda i: [("k", "l"), ("i", i)]),
    "list_i_k": ("ML3", lambda i: [B("[" + str(i) + "]"), K("y")], lambda i: [("k", "l"), ("i", i), ("k", "y")]),
    "emptylist_i": ("ML0", lambda i: [B("[" + str(i) + "]")], lambda i: [("k", "l"), ("i", i)]),
    "rootlist_i": ("L3", lambda i: [B("[" + str(i) + "]")], lambda i: [("i", i)]),
    "aoh_i_new": ("AOH3", lambda i: [B("[" + str(i) + "]"), K("zz")], lambda i: [("k", "w"), ("i", i), ("k", "zz")]),
    "barekey_i": ("ML3", lambda i: [K(str(i))], lambda i: [("k", "l"), ("i", i)]),
}


def _to_model(node):
    if isinstance(node, dict):
        return {"__map__": [[k, _to_model(v)] for k, v in node.items()]}
    if isinstance(node, list):
        return [_to_model(v) for v in node]
    return node


def _mget(m, k):
    for kk, vv in m["__map__"]:
        if kk == k:
            return True, vv
    return False, None


def _mset(m, k, v):
    for pair in m["__map__"]:
        if pair[0] == k:
            pair[1] = v
            return
    m["__map__"].append([k, v])


def model_create(before, segs, value, overwrite=True):
    """Expected document after creating the missing tail; None when the path runs into a scalar."""
    root = copy.deepcopy(before)

    def fresh(rest):
        if not rest:
            return value
        return [] if rest[0][0] == "i" else {"__map__": []}

    cur = root
    for n, (kind, arg) in enumerate(segs):
        rest = segs[n + 1:]
        last = n == len(segs) - 1
        if kind == "k":
            if not (isinstance(cur, dict) and "__map__" in cur):
                return None
            has, nxt = _mget(cur, arg)
            if not has or (last and True):
                if not has:
                    nxt = fresh(rest)
                    _mset(cur, arg, nxt)
                elif last and overwrite:
                    _mset(cur, arg, value)
                    nxt = value
            cur = nxt
        else:
            if not isinstance(cur, list):
                return None
            if arg < 0:
                return None
            if arg >= len(cur):
                while len(cur) < arg:
                    cur.append(PAD)
                cur.append(fresh(rest))
            elif last and overwrite:
                cur[arg] = value
            cur = cur[arg]
        if cur is None and not last:
            return None
    return root


def _mmatch(exp, got):
    if exp is PAD or exp == PAD:
        # a pad slot is a placeholder: a scalar default or an *empty* container - it must not carry content
        # (its scalar value is not specified by the property and is not compared)
        if isinstance(got, dict) and "__map__" in got:
            return len(got["__map__"]) == 0
        if isinstance(got, list):
            return len(got) == 0
        return True
    if isinstance(exp, dict) and "__map__" in exp:
        if not (isinstance(got, dict) and "__map__" in got):
            return False
        if len(exp["__map__"]) != len(got["__map__"]):
            return False
        for (ek, ev), (gk, gv) in zip(exp["__map__"], got["__map__"]):
            if ek != gk or not _mmatch(ev, gv):
                return False
        return True
    if isinstance(exp, list):
        if not isinstance(got, list) or len(exp) != len(got):
            return False
        for e, g in zip(exp, got):
            if not _mmatch(e, g):
                return False
        return True
    if isinstance(got, (list, dict)):
        return False
    return exp == got


def create_tail(name: str, i: int, v: int, via_set: bool, a: int, b: int, c: int) -> bool:
    """set_value / optional-match on a missing tail creates exactly that tail; everything else is unchanged."""
    shape, pieces_fn, segs_fn = CREATE[name]
    doc = docs.build(shape, a, b, c)
    path = mkpath(docs.focus(shape), pieces_fn(i), False)
    before = _to_model(doc)
    want = model_create(before, segs_fn(i), v, overwrite=via_set)
    note(document=docs.describe(shape), leaves=[a, b, c], path=path, value=v, via="set_value" if via_set else "get_nodes")
    if want is None:
        return True
    proc = Processor(LOG, doc)
    try:
        if via_set:
            proc.set_value(path, v)
        else:
            for _ in proc.get_nodes(path, mustexist=False, default_value=v):
                pass
    except YAMLPathException:
        note(problem="creation refused")
        return False
    after = _to_model(doc)
    note(after=after, expected=want)
    if not _mmatch(want, after):
        return False
    got = [nc.node for nc in proc.get_nodes(path, mustexist=True)]
    if len(got) != 1:
        return False
    return got[0] == v or not via_set


QUICK_PURE = [("L3", "idx"), ("ML4", "slice"), ("AOHX", "at_gt"), ("AOH3", "p"), ("MM", "deep"), ("HOH", "star_at"),
              ("AOHD", "at_desc"), ("M3", "key_sw"), ("ML3", "el_ngt"), ("AOHD", "deep_p")]


FANOUT = {
    # name: (builder(a, b, c), dot path, slash path)
    "list_search": (lambda a, b, c: cmap(("w", cseq(cmap(("l", cseq(a, c)), ("k", 1)), cmap(("l", cseq(b)), ("k", 2))))),
                    "w.l[.=1]", "/w/l[.=1]"),
    "aoh_attr_key": (lambda a, b, c: cmap(("w", cseq(cmap(("s", cmap(("v", cseq(cmap(("n", a), ("z", 5)))))), ("k", 1)),
                                                      cmap(("s", cmap(("v", cseq(cmap(("n", b), ("z", c)))))), ("k", 2))))),
                     "w.s.v[n=1].z", "/w/s/v[n=1]/z"),
    "hash_wild": (lambda a, b, c: cmap(("w", cseq(cmap(("h", cmap(("p", a)))), cmap(("h", cmap()), ("k", b))))),
                  "w.h.*", "/w/h/*"),
    "deep_key": (lambda a, b, c: cmap(("w", cseq(cmap(("h", cmap(("x", cmap(("p", a)))))), cmap(("h", cmap(("y", b))))))),
                 "w.h.**.p", "/w/h/**/p"),
}


def pure_fanout(name: str, slash: bool, a: int, b: int, c: int) -> bool:
    """A path that fans out over an Array-of-Hashes and matches in SOME branches exists as a whole: reading it (required,
    exists(), optional) must not touch the branches where the tail matches nothing."""
    build, dot, fsl = FANOUT[name]
    doc = build(a, b, c)
    path = fsl if slash else dot
    note(document=snapshot(doc), path=path)
    return _pure(doc, path)


def shards(tier, seed):
    out = []
    pairs = QUICK_PURE if tier == "quick" else c01.pairs("thorough")
    for s, t in pairs:
        _pf, _sf, uses_i, uses_j, tdesc = c01.TEMPLATES[t]
        params, pre = [], []
        if uses_i:
            params.append(("i", "int"))
            pre.append("-4 <= i <= 4")
        if uses_j:
            params.append(("j", "int"))
            pre.append("-4 <= j <= 4")
        params += [("a", "int"), ("b", "int"), ("c", "int"), ("slash", "bool")]
        pre.append("-9 <= a <= 9 and -9 <= b <= 9 and -9 <= c <= 9")
        out.append(shard(PID, "pure/%s/%s" % (s, t), "harness.c09",
                         "pure_query(%r, %r, %s, %s, a, b, c, slash)" % (s, t, "i" if uses_i else "0", "j" if uses_j else "0"),
                         params, pre, family="pure/%s/%s" % (s, t), budget=900,
                         desc="read purity: %s x <focus>%s" % (docs.describe(s), tdesc)))
    for name in FANOUT:
        out.append(shard(PID, "fanout/%s" % name, "harness.c09", "pure_fanout(%r, slash, a, b, c)" % name,
                         [("slash", "bool"), ("a", "int"), ("b", "int"), ("c", "int")],
                         ["-2 <= a <= 2 and -2 <= b <= 2 and -2 <= c <= 2"], family="fanout", budget=900,
                         desc="read purity where %s fans out over an Array-of-Hashes and its search / wildcard / deep tail matches "
                              "in some branches only" % FANOUT[name][1]))
    colls = list(COLL) if tier == "thorough" else ["h_minus_g", "h_minus_gp", "hp_plus_gp", "h_and_g", "nested",
                                                   "l_minus_0", "l_slice_plus", "aoh_minus", "hoh_minus", "hs_minus_gs"]
    for name in colls:
        out.append(shard(PID, "coll/%s" % name, "harness.c09", "pure_collector(%r, a, b, c)" % name,
                         [("a", "int"), ("b", "int"), ("c", "int")], ["-9 <= a <= 9 and -9 <= b <= 9 and -9 <= c <= 9"],
                         family="coll/%s" % name, budget=900,
                         desc="read purity: %s  x  %s" % (docs.describe(COLL[name][0]), COLL[name][1])))
    creates = list(CREATE) if tier == "thorough" else ["hash_x_y", "hash_x_i", "nested_h_x", "list_i", "emptylist_i",
                                                       "list_i_k", "rootlist_i"]
    for name in creates:
        out.append(shard(PID, "create/%s" % name, "harness.c09", "create_tail(%r, i, v, via_set, a, b, c)" % name,
                         [("i", "int"), ("v", "int"), ("via_set", "bool"), ("a", "int"), ("b", "int"), ("c", "int")],
                         ["0 <= i <= 5", "-1 <= v <= 1", "-9 <= a <= 9 and -9 <= b <= 9 and -9 <= c <= 9"],
                         family="create/%s" % name, budget=900,
                         desc="creation of a missing tail: %s" % name, bounds={"i": "[0,5]", "v": "[-1,1] (the implementation wraps the value in a C-constructed ruamel scalar)"}))
    return out
