"""C08 - path text and parsed segments round-trip in both notations."""
from crosshair import realize

from yamlpath import YAMLPath
from yamlpath.enums import (PathSegmentTypes, PathSearchMethods, PathSearchKeywords, PathSeparators, CollectorOperators)
from yamlpath.exceptions import YAMLPathException
from yamlpath.path import SearchTerms, SearchKeywordTerms, CollectorTerms

from vf.shard import shard, note

PID = "C08"
FILES = ["yamlpath/yamlpath.py", "yamlpath/path/searchterms.py", "yamlpath/path/searchkeywordterms.py",
         "yamlpath/path/collectorterms.py", "yamlpath/enums/pathseparators.py", "yamlpath/enums/pathsearchmethods.py"]
FUNCTIONS = ["YAMLPath.__init__/original/separator/escaped/unescaped/_parse_path/_expand_splats", "YAMLPath.__str__/"
             "_stringify_yamlpath_segments/ensure_escaped/escape_path_section", "YAMLPath.__eq__/__ne__/append/pop/__add__",
             "SearchTerms.__str__", "SearchKeywordTerms.__str__/parameters", "CollectorTerms.__str__",
             "PathSeparators.infer_separator"]
STUBS = []
OUTSIDE = ["characters that act as operators and have no documented escape (* & ! = < > ~ : , + -) inside key/term text; "
           "empty keys; dot-notation paths whose first character is '/'; text longer than 3 characters; more than 2 segments",
           "regular-expression terms beyond a finite pool"]
ASSUMPTIONS = ["reference writer W renders segments with the README's escapes; it is the harness's, not yamlpath's"]

T = PathSegmentTypes
ESCAPABLE = ["\\", ".", "/", "(", ")", "[", "]", "^", "$", "%", " ", "'", '"']
PLAIN = ["a", "b", "0", "1"]
ALPHABET = PLAIN + ESCAPABLE
SEP = {False: ".", True: "/"}
OPS = [("=", PathSearchMethods.EQUALS), ("^", PathSearchMethods.STARTS_WITH), ("$", PathSearchMethods.ENDS_WITH),
       ("%", PathSearchMethods.CONTAINS), (">", PathSearchMethods.GREATER_THAN), ("<", PathSearchMethods.LESS_THAN),
       (">=", PathSearchMethods.GREATER_THAN_OR_EQUAL), ("<=", PathSearchMethods.LESS_THAN_OR_EQUAL)]


def in_alphabet(s):
    for c in s:
        ok = False
        for a in ALPHABET:
            if c == a:
                ok = True
        if not ok:
            return False
    return True


def esc(text, slash):
    """Reference writer: backslash before every escapable character (only the active separator of . and /)."""
    out = ""
    for c in text:
        special = False
        for e in ESCAPABLE:
            if c == e:
                special = True
        if c == "." and slash:
            special = False
        if c == "/" and not slash:
            special = False
        out += ("\\" + c) if special else c
    return out


def first_ok(key, slash):
    # dot-notation paths starting with '/' are excluded by the notation's own definition
    return slash or key[0] != "/"


def w_path(pieces, slash):
    """pieces: list of ('k', escaped text) / ('b', bracket text)."""
    out = "/" if slash else ""
    first = True
    for kind, text in pieces:
        if kind == "k":
            out += ("" if first else SEP[slash]) + text
        else:
            out += text
        first = False
    return out


def _seg_eq(got, want):
    if len(got) != len(want):
        return False
    for (gt, ga), (wt, wa) in zip(got, want):
        if gt != wt:
            return False
        if isinstance(wa, SearchTerms):
            if not isinstance(ga, SearchTerms):
                return False
            if (ga.inverted, ga.method, ga.attribute, ga.term) != (wa.inverted, wa.method, wa.attribute, wa.term):
                return False
        elif isinstance(wa, SearchKeywordTerms):
            if not isinstance(ga, SearchKeywordTerms):
                return False
            if (ga.inverted, ga.keyword, ga.parameters) != (wa.inverted, wa.keyword, wa.parameters):
                return False
        elif isinstance(wa, CollectorTerms):
            if not isinstance(ga, CollectorTerms):
                return False
            if (ga.operation, ga.expression) != (wa.operation, wa.expression):
                return False
        elif ga != wa:
            return False
    return True


def _canonical_ok(text, want, slash):
    """str() of the parsed path re-parses to the same segments in either notation and is a fixed point."""
    p = YAMLPath(text)
    t = str(p)
    if not _seg_eq(list(YAMLPath(t).escaped), want):
        note(problem="canonical string %r does not re-parse to the segments" % t)
        return False
    if str(YAMLPath(t)) != t:
        note(problem="canonical string %r is not a fixed point (%r)" % (t, str(YAMLPath(t))))
        return False
    q = YAMLPath(text)
    q.separator = PathSeparators.DOT if slash else PathSeparators.FSLASH
    t2 = str(q)
    if not _seg_eq(list(YAMLPath(t2).escaped), want):
        note(problem="string in the other notation %r does not re-parse to the segments" % t2)
        return False
    return True


def key_rt(key: str, slash: bool, canon: bool = True) -> bool:
    """W(key) parses to exactly [(KEY, key)]; canonical string round-trips."""
    text = w_path([("k", esc(key, slash))], slash)
    want = [(T.KEY, key)]
    note(key=key, text=text)
    got = list(YAMLPath(text).escaped)
    note(parsed=[(str(t), str(a)) for t, a in got])
    if not _seg_eq(got, want):
        return False
    return (not canon) or _canonical_ok(text, want, slash)


def key2_rt(k1: str, k2: str, slash: bool, canon: bool = True) -> bool:
    text = w_path([("k", esc(k1, slash)), ("k", esc(k2, slash))], slash)
    want = [(T.KEY, k1), (T.KEY, k2)]
    note(keys=[k1, k2], text=text)
    got = list(YAMLPath(text).escaped)
    if not _seg_eq(got, want):
        return False
    return (not canon) or _canonical_ok(text, want, slash)


def index_rt(i: int, j: int, slash: bool, sliced: bool, canon: bool = True) -> bool:
    inner = (str(i) + ":" + str(j)) if sliced else str(i)
    text = w_path([("k", "a"), ("b", "[" + inner + "]")], slash)
    want = [(T.KEY, "a"), (T.INDEX, inner if sliced else i)]
    note(text=text)
    got = list(YAMLPath(text).escaped)
    if not _seg_eq(got, want):
        return False
    return (not canon) or _canonical_ok(text, want, slash)


def anchor_rt(name: str, slash: bool, bracket: bool, canon: bool = True) -> bool:
    if bracket:
        text = w_path([("k", "a"), ("b", "[&" + esc(name, slash) + "]")], slash)
        want = [(T.KEY, "a"), (T.ANCHOR, name)]
    else:
        text = w_path([("k", "&" + esc(name, slash)), ("k", "b")], slash)
        want = [(T.ANCHOR, name), (T.KEY, "b")]
    note(anchor=name, text=text)
    got = list(YAMLPath(text).escaped)
    if not _seg_eq(got, want):
        return False
    return (not canon) or _canonical_ok(text, want, slash)


def search_rt(opk: int, attr: str, term: str, inv: bool, slash: bool, canon: bool = True) -> bool:
    optext, method = OPS[opk]
    inner = esc(attr, slash) + ("!" if inv else "") + optext + esc(term, slash)
    text = w_path([("k", "k"), ("b", "[" + inner + "]")], slash)
    want = [(T.KEY, "k"), (T.SEARCH, SearchTerms(inv, method, attr, term))]
    note(attribute=attr, term=term, text=text)
    got = list(YAMLPath(text).escaped)
    note(parsed=[(str(t), str(a)) for t, a in got])
    if not _seg_eq(got, want):
        return False
    return (not canon) or _canonical_ok(text, want, slash)


def forms_rt(k: int, slash: bool) -> bool:
    """Equivalent spellings of one search segment parse to the same terms: '!' before the attribute or before the
    operator, '==' for '=', blanks around the operator, a demarcated term, a demarcated key."""
    k = realize(k)
    opk, k = k % len(OPS), k // len(OPS)
    inv, k = k % 2, k // 2
    form = k % 6
    optext, method = OPS[opk]
    attr, term = "at", "t1"
    bang_pre, bang_mid = ("!" if inv and form == 1 else ""), ("!" if inv and form != 1 else "")
    op = optext
    if form == 2 and optext == "=":
        op = "=="
    lhs, rhs = attr, term
    if form == 3:
        op = " " + op + " "
    if form == 4:
        rhs = '"' + term + '"'
    if form == 5:
        rhs = "'" + term + "'"
    text = w_path([("k", "k"), ("b", "[" + bang_pre + lhs + bang_mid + op + rhs + "]")], slash)
    want = [(T.KEY, "k"), (T.SEARCH, SearchTerms(bool(inv), method, attr, term))]
    note(text=text)
    got = list(YAMLPath(text).escaped)
    note(parsed=[(str(t), str(a)) for t, a in got])
    if not _seg_eq(got, want):
        return False
    return _canonical_ok(text, want, slash)


def quoted_key_rt(k: int, slash: bool) -> bool:
    """Demarcated keys: 'a.b', "a b", nested quotes; the quotes are not part of the key."""
    k = realize(k)
    q, k = k % 2, k // 2
    which = k % 4
    inner = ["a.b", "a b", "a/b", "x[0]"][which]
    quote = "'\""[q]
    text = w_path([("k", "r"), ("k", quote + inner + quote), ("k", "z")], slash)
    want = [(T.KEY, "r"), (T.KEY, inner), (T.KEY, "z")]
    note(text=text)
    got = list(YAMLPath(text).escaped)
    note(parsed=[(str(t), str(a)) for t, a in got])
    if not _seg_eq(got, want):
        return False
    t = str(YAMLPath(text))
    return _seg_eq(list(YAMLPath(t).escaped), want) and str(YAMLPath(t)) == t


STATE_TEXTS = ["a.b\\.c[1]", "/a/b.c[x=1]", "k[.!=v].z", "/&anc/p*", "(a)+(b).c", "a.'q.r'.s"]


def _observe(p):
    return ([(str(t), str(a)) for t, a in p.escaped], [(str(t), str(a)) for t, a in p.unescaped], str(p),
            str(p.separator), len(p), p.is_root)


def state_rt(k: int) -> bool:
    """Any sequence of accesses and mutations on ONE YAMLPath object leaves it indistinguishable from a fresh object
    holding the same text and separator (lazy parse caches, cached string, separator changes, re-assignment)."""
    k = realize(k)
    t0, k = k % len(STATE_TEXTS), k // len(STATE_TEXTS)
    ops = []
    for _ in range(3):
        ops.append(k % 7)
        k //= 7
    text = STATE_TEXTS[t0]
    p = YAMLPath(text)
    p.escaped                  # "a parsed path": switching the separator of a not-yet-parsed path is the documented way
    sep = None                 # to force the separator used for parsing, which is a different operation
    note(text=text, ops=ops)
    for op in ops:
        if op == 0:
            str(p)
        elif op == 1:
            p.escaped
        elif op == 2:
            p.unescaped
        elif op == 3:
            p.separator = PathSeparators.DOT
            sep = PathSeparators.DOT
        elif op == 4:
            p.separator = PathSeparators.FSLASH
            sep = PathSeparators.FSLASH
        elif op == 5:
            text = STATE_TEXTS[(t0 + 1) % len(STATE_TEXTS)]
            p.original = text
            p.escaped
            sep = None
        else:
            q = p + "zz"            # must not disturb p
            if len(q) != len(p) + 1:
                return False
    fresh = YAMLPath(text)
    fresh.escaped
    if sep is not None:
        fresh.separator = sep
    a, b = _observe(p), _observe(fresh)
    note(used=a[2], fresh=b[2])
    return a == b and (p == fresh) and (YAMLPath(p) == fresh)


REGEXES = ["^a", "a b", "a.b", "x/y", "[ab]+", "(a|b)$", "\\d+", "a'b"]


def regex_rt(k: int, inv: bool, slash: bool, canon: bool = True) -> bool:
    k = realize(k)
    rx = REGEXES[k]
    delim = "/" if "/" not in rx else "#"
    text = w_path([("k", "k"), ("b", "[p" + ("!" if inv else "") + "=~" + delim + rx + delim + "]")], slash)
    want = [(T.KEY, "k"), (T.SEARCH, SearchTerms(inv, PathSearchMethods.REGEX, "p", rx))]
    note(regex=rx, text=text)
    got = list(YAMLPath(text).escaped)
    if not _seg_eq(got, want):
        return False
    return (not canon) or _canonical_ok(text, want, slash)


KEYWORDS = list(PathSearchKeywords)
PARAMS = ["a", "0", "b1", "a.b", "a/b", "^", "$", "%", "1"]


def keyword_rt(kw: int, param: int, inv: bool, slash: bool, has_param: bool, canon: bool = True) -> bool:
    kw = realize(kw)
    keyword = KEYWORDS[kw]
    ptext = PARAMS[realize(param)] if has_param else ""
    text = w_path([("k", "k"), ("b", "[" + ("!" if inv else "") + str(keyword) + "(" + ptext + ")]")], slash)
    want = [(T.KEY, "k"), (T.KEYWORD_SEARCH, SearchKeywordTerms(inv, keyword, ptext))]
    note(keyword=str(keyword), parameter=ptext, text=text)
    got = list(YAMLPath(text).escaped)
    if not _seg_eq(got, want):
        return False
    return (not canon) or _canonical_ok(text, want, slash)


COLL = [("", CollectorOperators.NONE), ("+", CollectorOperators.ADDITION), ("-", CollectorOperators.SUBTRACTION),
        ("&", CollectorOperators.INTERSECTION)]


def collector_rt(opk: int, k1: str, k2: str, slash: bool) -> bool:
    opk = realize(opk)
    sym, oper = COLL[opk]
    e1, e2 = esc(k1, slash), esc(k2, slash)
    if opk == 0:
        text = ("/" if slash else "") + "(" + e1 + ")"
        want = [(T.COLLECTOR, CollectorTerms(e1, CollectorOperators.NONE))]
    else:
        text = ("/" if slash else "") + "(" + e1 + ")" + sym + "(" + e2 + ")"
        want = [(T.COLLECTOR, CollectorTerms(e1, CollectorOperators.NONE)), (T.COLLECTOR, CollectorTerms(e2, oper))]
    note(text=text)
    got = list(YAMLPath(text).unescaped)
    return _seg_eq(got, want)


def collector3_rt(k: int, slash: bool) -> bool:
    """Three collectors in a row (and with a key between): each keeps its own operator."""
    k = realize(k)
    o1, k = k % 4, k // 4
    o2, k = k % 4, k // 4
    mid = k % 2
    (s1, op1), (s2, op2) = COLL[o1], COLL[o2]
    text = ("/" if slash else "") + "(a)" + s1 + "(b)" + (("/x" if slash else ".x") if mid else "") + s2 + "(c)"
    if mid and s2:
        return True     # an operator cannot follow a key
    want = [(T.COLLECTOR, CollectorTerms("a", CollectorOperators.NONE)), (T.COLLECTOR, CollectorTerms("b", op1))]
    if mid:
        want.append((T.KEY, "x"))
    want.append((T.COLLECTOR, CollectorTerms("c", op2)))
    note(text=text)
    got = list(YAMLPath(text).unescaped)
    note(parsed=[(str(t), str(a)) for t, a in got])
    if not _seg_eq(got, want):
        return False
    t = str(YAMLPath(text))
    return _seg_eq(list(YAMLPath(t).unescaped), want) and (YAMLPath(text) == YAMLPath(t))


def wildcard_rt(which: int, slash: bool) -> bool:
    which = realize(which)
    text, want = [
        ("a.*", [(T.KEY, "a"), (T.MATCH_ALL, None)]),
        ("a.**", [(T.KEY, "a"), (T.TRAVERSE, None)]),
        ("a.**.b", [(T.KEY, "a"), (T.TRAVERSE, None), (T.KEY, "b")]),
        ("a.b*", [(T.KEY, "a"), (T.SEARCH, SearchTerms(False, PathSearchMethods.STARTS_WITH, ".", "b"))]),
        ("a.*b", [(T.KEY, "a"), (T.SEARCH, SearchTerms(False, PathSearchMethods.ENDS_WITH, ".", "b"))]),
    ][which]
    if slash:
        text = "/" + text.replace(".", "/")
    got = list(YAMLPath(text).escaped)
    if not _seg_eq(got, want):
        return False
    t = str(YAMLPath(text))
    return _seg_eq(list(YAMLPath(t).escaped), want) and str(YAMLPath(t)) == t


def equality(k1: str, k2: str, slash1: bool, slash2: bool) -> bool:
    """Two paths compare equal exactly when their segments are equal, whatever the notation."""
    p1 = YAMLPath(w_path([("k", "r"), ("k", esc(k1, slash1))], slash1))
    p2 = YAMLPath(w_path([("k", "r"), ("k", esc(k2, slash2))], slash2))
    note(k1=k1, k2=k2, t1=p1.original, t2=p2.original)
    return (p1 == p2) == (k1 == k2) and (p1 != p2) == (k1 != k2)


def append_pop(base: str, seg: str, slash: bool) -> bool:
    """append(segment) then pop() restores the path; '+' leaves the original untouched."""
    text = w_path([("k", esc(base, slash))], slash)
    p = YAMLPath(text)
    before_str, before_segs = str(p), list(p.escaped)
    q = p + esc(seg, slash)
    if str(p) != before_str or not _seg_eq(list(p.escaped), before_segs):
        note(problem="'+' changed its left operand")
        return False
    if not _seg_eq(list(q.escaped), before_segs + [(T.KEY, seg)]):
        note(problem="'+' result has wrong segments", got=[(str(t), str(a)) for t, a in q.escaped])
        return False
    p.append(esc(seg, slash))
    popped = p.pop()
    note(base=base, seg=seg, text=text, after=str(p), popped=str(popped[1]))
    return str(p) == before_str and _seg_eq(list(p.escaped), before_segs)


def plain_param(c):
    return c == "a" or c == "b" or c == "0" or c == "1" or c == "." or c == "/" or c == "^" or c == "$" or c == "%"


def shards(tier, seed):
    out = []
    n = 3 if tier == "thorough" else 2
    for canon, fam in ((False, "parse"), (True, "canon")):
        cflag = ", %r" % canon
        kpre = "1 <= len(key) <= %d and in_alphabet(key) and first_ok(key, slash)" % (n if not canon else 2)
        out.append(shard(PID, "%s/key" % fam, "harness.c08", "key_rt(key, slash%s)" % cflag, [("key", "str"), ("slash", "bool")],
                         [kpre], family="%s/key" % fam, budget=1800,
                         desc="one key over letters, digits and every escapable character (%s)" % fam,
                         bounds={"key": "str over the %d-character alphabet, len 1..%d" % (len(ALPHABET), n if not canon else 2)}))
        if not canon or tier == "thorough":
            out.append(shard(PID, "%s/key2" % fam, "harness.c08", "key2_rt(k1, k2, slash%s)" % cflag,
                             [("k1", "str"), ("k2", "str"), ("slash", "bool")],
                             ["len(k1) == 1 and len(k2) == 1 and in_alphabet(k1) and in_alphabet(k2) and first_ok(k1, slash)"],
                             family="%s/key2" % fam, budget=1800, desc="two one-character keys (%s)" % fam))
        out.append(shard(PID, "%s/index" % fam, "harness.c08", "index_rt(i, j, slash, sliced%s)" % cflag,
                         [("i", "int"), ("j", "int"), ("slash", "bool"), ("sliced", "bool")],
                         ["-99 <= i <= 99 and -99 <= j <= 99"], family="%s/index" % fam, budget=1200,
                         desc="a[i] and a[i:j], i, j in [-99, 99] (%s)" % fam))
        out.append(shard(PID, "%s/anchor" % fam, "harness.c08", "anchor_rt(name, slash, bracket%s)" % cflag,
                         [("name", "str"), ("slash", "bool"), ("bracket", "bool")],
                         ["1 <= len(name) <= 2 and in_alphabet(name)"], family="%s/anchor" % fam, budget=1200,
                         desc="&name and [&name], name over the alphabet, len 1..2 (%s)" % fam))
        ops = range(len(OPS)) if tier == "thorough" else ([0, 4] if not canon else [])
        for opk in ops:
            out.append(shard(PID, "%s/search/%s" % (fam, ["eq", "sw", "ew", "has", "gt", "lt", "ge", "le"][opk]), "harness.c08",
                             "search_rt(%d, attr, term, inv, slash%s)" % (opk, cflag),
                             [("attr", "str"), ("term", "str"), ("inv", "bool"), ("slash", "bool")],
                             ["len(attr) == 1 and 1 <= len(term) <= %d and in_alphabet(attr) and in_alphabet(term)" % (
                                 2 if tier == "thorough" and not canon else 1)],
                             family="%s/search" % fam, budget=1800, desc="k[attr %s term], inverted or not (%s)" % (OPS[opk][0], fam)))
        out.append(shard(PID, "%s/regex" % fam, "harness.c08", "regex_rt(k, inv, slash%s)" % cflag,
                         [("k", "int"), ("inv", "bool"), ("slash", "bool")], ["0 <= k < %d" % len(REGEXES)],
                         family="%s/regex" % fam, budget=600, kind="S", desc="regex terms from a pool (%s)" % fam))
        out.append(shard(PID, "%s/keyword" % fam, "harness.c08", "keyword_rt(kw, param, inv, slash, has_param%s)" % cflag,
                         [("kw", "int"), ("param", "int"), ("inv", "bool"), ("slash", "bool"), ("has_param", "bool")],
                         ["0 <= kw < %d" % len(KEYWORDS), "0 <= param < %d" % (len(PARAMS) if tier == "thorough" else 3)] +
                         ([] if tier == "thorough" else ["slash == False"]),
                         family="%s/keyword" % fam, budget=1200, desc="[keyword(param)] for every keyword (%s)" % fam))
    out.append(shard(PID, "parse/collector", "harness.c08", "collector_rt(opk, k1, k2, slash)",
                     [("opk", "int"), ("k1", "str"), ("k2", "str"), ("slash", "bool")],
                     ["0 <= opk < 4", "len(k1) == 1 and len(k2) == 1", "k1 >= 'a' and k1 <= 'b' and k2 >= 'a' and k2 <= 'b'"],
                     family="parse/collector", budget=600, desc="(k1) / (k1)+(k2) / -( ) / &( )"))
    out.append(shard(PID, "parse/forms", "harness.c08", "forms_rt(k, slash)", [("k", "int"), ("slash", "bool")],
                     ["0 <= k < %d" % (len(OPS) * 2 * 6)], family="parse/forms", budget=900, kind="S",
                     desc="equivalent spellings of a search segment (inversion placement, ==, blanks, demarcated term)"))
    out.append(shard(PID, "parse/quoted_key", "harness.c08", "quoted_key_rt(k, slash)", [("k", "int"), ("slash", "bool")],
                     ["0 <= k < 8"], family="parse/quoted_key", budget=600, kind="S", desc="demarcated keys"))
    n_state = len(STATE_TEXTS) * 7 * 7 * 7
    for lo in range(0, n_state, 343):
        out.append(shard(PID, "state/k%04d" % lo, "harness.c08", "state_rt(k)", [("k", "int")],
                         ["%d <= k < %d" % (lo, lo + 343)], family="state", budget=900, kind="S",
                         desc="all 3-step sequences of str/escaped/unescaped/separator changes/re-assignment/'+' on one "
                              "YAMLPath object vs a fresh object (text #%d)" % (lo // 343)))
    out.append(shard(PID, "parse/collector3", "harness.c08", "collector3_rt(k, slash)", [("k", "int"), ("slash", "bool")],
                     ["0 <= k < 32"], family="parse/collector", budget=600, kind="S",
                     desc="(a) op (b) [key] op (c): every operator pair incl. none"))
    out.append(shard(PID, "canon/wildcard", "harness.c08", "wildcard_rt(which, slash)", [("which", "int"), ("slash", "bool")],
                     ["0 <= which < 5"], family="canon/wildcard", budget=600, kind="S", desc="*, **, prefix*/suffix* expansions"))
    out.append(shard(PID, "equality", "harness.c08", "equality(k1, k2, slash1, slash2)",
                     [("k1", "str"), ("k2", "str"), ("slash1", "bool"), ("slash2", "bool")],
                     ["len(k1) == 1 and len(k2) == 1 and in_alphabet(k1) and in_alphabet(k2)"], family="equality", budget=1800,
                     desc="== / != across notations iff the segments are equal"))
    out.append(shard(PID, "append_pop", "harness.c08", "append_pop(base, seg, slash)",
                     [("base", "str"), ("seg", "str"), ("slash", "bool")],
                     ["len(base) == 1 and len(seg) == 1 and in_alphabet(base) and in_alphabet(seg) and first_ok(base, slash)"],
                     family="append_pop", budget=1800, desc="append then pop restores; '+' does not mutate"))
    return out
