"""C15 - evaluating any path on any document fails only with YAML Path errors."""
from yamlpath import Processor, YAMLPath
from yamlpath.exceptions import YAMLPathException

from crosshair import realize

from vf import docs
from vf.common import LOG
from vf.shard import shard, note
from harness import qcommon
from harness.qcommon import TEMPLATES

PID = "C15"
FILES = ["yamlpath/processor.py", "yamlpath/common/keywordsearches.py", "yamlpath/common/searches.py",
         "yamlpath/common/nodes.py", "yamlpath/yamlpath.py", "yamlpath/path/searchkeywordterms.py"]
FUNCTIONS = ["Processor.get_nodes", "Processor.exists", "Processor._get_required_nodes", "Processor._get_optional_nodes",
             "Processor._get_nodes_by_path_segment and every segment handler (_get_nodes_by_key/_index/_anchor/"
             "_search/_keyword_search/_collector/_traversal/_match_all*)", "KeywordSearches.*", "Searches.search_matches",
             "Nodes.typed_value", "SearchKeywordTerms.parameters", "YAMLPath parser (path given as text)"]
STUBS = ["logger: real ConsolePrinter with quiet=True"]
OUTSIDE = ["document shapes outside vf/docs.py SHAPES and path templates outside harness/qcommon.py TEMPLATES",
           "indexes/bounds outside [-6, 6]; leaves outside [-9, 9]; float leaves; symbolic regular expressions",
           "mustexist=False (creating) evaluation is exercised only where the template is a plain key/index path"]
ASSUMPTIONS = []

# templates whose optional-match (creating) evaluation is part of the claim
_CREATABLE = {"idx", "barekey", "idx_key", "idx_idx", "key_p", "key_p_p", "key_missing", "key_1"}


def eval_total(shape: str, template: str, i: int, j: int, a: int, b: int, c: int, mode: int, slash: bool,
               rl: bool = False, twice: bool = False) -> bool:
    """The query returns or raises a member of the YAMLPathException family."""
    if rl:
        # member containers get stringified by the implementation: enumerate the (small) leaf domain
        used = docs.used_leaves(shape)
        a = realize(a) if 0 in used else 0
        b = realize(b) if 1 in used else 0
        c = realize(c) if 2 in used else 0
    doc = docs.build(shape, a, b, c)
    path = qcommon.path_for(shape, template, i, j, slash)
    note(document=docs.describe(shape), leaves=[a, b, c], path=path,
         call=["get_nodes(mustexist=True)", "exists()", "get_nodes(mustexist=False)"][mode])
    for rep in range(2 if twice else 1):
        # second round: a fresh Processor over a fresh document - state must not be carried over in the library
        if rep == 1:
            doc = docs.build(shape, a, b, c)
        proc = Processor(LOG, doc)
        try:
            if mode == 0:
                for _ in proc.get_nodes(path, mustexist=True):
                    pass
            elif mode == 1:
                proc.exists(path)
            else:
                for _ in proc.get_nodes(path, mustexist=False, default_value=0):
                    pass
        except YAMLPathException:
            pass
    return True


QUICK = [
    ("L2", "idx"), ("L0", "idx"), ("L3", "slice"), ("L0", "slice"), ("ML3", "barekey"), ("ML3", "idx_idx"),
    ("MINT", "hslice"), ("SETI", "hslice"), ("SET", "idx"), ("AOHN", "s_eq_x"), ("AOHN", "a_gt_2"),
    ("LMIX", "s_gt_3"), ("LMIX", "s_badre"), ("LHASH", "kw_unique"), ("LHASH", "kw_distinct"), ("LMIX", "kw_max"),
    ("AOHX", "kw_maxp"), ("AOHP0", "kw_minp"), ("AOH3", "kw_idx_parent_j"), ("L3", "kw_parent_i"),
    ("LNULL", "s_sw_a"), ("MNULL", "s_lt_txt"), ("LL", "idx_idx"), ("LL", "star_idx"), ("ML0", "deep_idx"),
    ("AOHD", "a_desc"), ("HOH", "star_search"), ("L3", "coll_add"), ("L3", "coll_sub"), ("L3", "coll_and"),
    ("ROOTSCALAR", "idx"), ("SCAL", "slice"), ("M3", "kw_max"), ("AOHN", "kw_haschild"), ("LNULL", "kw_nunique"),
    ("MM", "deep_deep"), ("AOHN", "key_p"), ("LMIX", "idx_key"), ("MSTRNUM", "barekey"),
]


_CONTAINER_ELEMS = {"AOH3", "AOHX", "AOHN", "AOHP0", "AOHD", "HOH", "LL", "LHASH", "LMIX", "MM"}


def _leaf_pre(shape, template):
    if "unique" in template or "distinct" in template:
        # the implementation hashes the values (dict keys): keep the realisation finite and small
        return "-1 <= a <= 1 and -1 <= b <= 1 and -1 <= c <= 1", "[-1,1] (hashed by the implementation)"
    if shape in _CONTAINER_ELEMS and (template.startswith("s_") or template in ("deep_search", "glob_pre", "glob_suf")):
        # a '.'-search stringifies whole member containers (Nodes.typed_value): finite realisation
        return "2 <= a <= 4 and 2 <= b <= 4 and 2 <= c <= 4", "[2,4] (member containers are stringified)"
    return "-9 <= a <= 9 and -9 <= b <= 9 and -9 <= c <= 9", "[-9,9]"


def _mk(shape, template, tier="thorough"):
    fn, uses_i, uses_j, tdesc = TEMPLATES[template]
    variants = [("", [])]
    params = []
    if uses_i:
        params.append(("i", "int"))
    if uses_j:
        params.append(("j", "int"))
    two = uses_i and uses_j
    if two:
        if "parent" in template:
            variants = [("", ["-5 <= i <= 4", "-1 <= j <= 3"])]
        else:
            variants = [("/nn", ["-6 <= i < 0", "-6 <= j < 0"]), ("/np", ["-6 <= i < 0", "0 <= j <= 6"]),
                        ("/pn", ["0 <= i <= 6", "-6 <= j < 0"]), ("/pp", ["0 <= i <= 6", "0 <= j <= 6"])]
    elif uses_i:
        variants = [("", ["-6 <= i <= 6"])]
    leaf_pre, leaf_desc = _leaf_pre(shape, template)
    rl = leaf_desc.startswith("[2,4]")
    modes = 2 if template in _CREATABLE else 1
    fixed = two and tier == "quick"      # quick: two-integer templates run required-match, dot notation only
    params += [("a", "int"), ("b", "int"), ("c", "int")]
    if not fixed:
        params += [("mode", "int"), ("slash", "bool")]
    twice = template in ("s_badre", "a_badre", "s_re", "kw_uniquep", "kw_distinctp", "kw_maxp", "kw_haschild", "s_eq_x")
    call = "eval_total(%r, %r, %s, %s, a, b, c, %s, %s, %r, %r)" % (
        shape, template, "i" if uses_i else "0", "j" if uses_j else "0",
        "0" if fixed else "mode", "False" if fixed else "slash", rl, twice)
    out = []
    for suffix, ipre in variants:
        pre = list(ipre) + [leaf_pre] + ([] if fixed else ["0 <= mode <= %d" % modes])
        out.append(shard(PID, "eval/%s/%s%s" % (shape, template, suffix), "harness.c15", call, params, pre,
                         family="eval/%s/%s" % (shape, template), budget=600,
                         desc="%s  x  <focus>%s" % (docs.describe(shape), tdesc),
                         bounds={"i,j": "; ".join(ipre) or "unused", "a,b,c": leaf_desc,
                                 "mode": "required only" if fixed else
                                         "required/exists" + ("/optional" if modes == 2 else ""),
                                 "slash": "dot only" if fixed else "both notations"}))
    return out


def shards(tier, seed):
    if tier == "quick":
        return [x for s, t in QUICK for x in _mk(s, t, tier)]
    core_t = ["idx", "barekey", "slice", "idx_key", "idx_idx", "key_p", "hslice", "s_eq_x", "s_gt_3", "s_sw_a",
              "s_badre", "a_gt_2", "a_desc", "kw_max", "kw_maxp", "kw_unique", "kw_distinct", "kw_haschild", "kw_parent_i",
              "kw_idx_parent_j", "kw_name", "star", "star_idx", "deep", "deep_key", "deep_idx"]
    core_s = ["L3", "L0", "ML3", "LNULL", "LMIX", "AOH3", "AOHN", "MM", "MINT", "SET", "LFLT"]
    scalar_lists = ["L3", "L2", "L1", "L0", "ML3", "ML4", "ML0", "LNULL", "LSTR", "LFLT", "LTXT"]
    symbolic_term = ("s_le_i", "s_eq_i", "a_ge_i")      # a symbolic search *term* is realised per value: scalar lists only
    collectors = ("coll_add", "coll_sub", "coll_and")    # the property limits collectors to operands selecting scalars
    seen, out = set(), []
    pairs = [(s, t) for s in docs.SHAPES for t in core_t] + [(s, t) for s in core_s for t in TEMPLATES] + list(QUICK)
    pairs += [(s, t) for s in scalar_lists for t in symbolic_term + collectors]
    pairs = [(s, t) for (s, t) in pairs if (t not in symbolic_term and t not in collectors) or s in scalar_lists]
    for s, t in pairs:
        if (s, t) in seen:
            continue
        seen.add((s, t))
        out.extend(_mk(s, t))
    return out
