"""C06 - a diff is truthful and complete; it is empty of changes iff the data are equal."""
from types import SimpleNamespace

from crosshair import realize

from yamlpath import YAMLPath
from yamlpath.differ import Differ, DifferConfig
from yamlpath.differ.enums import DiffActions
from yamlpath.enums import PathSegmentTypes

from vf.common import LOG, cmap, cseq
from vf.shard import shard, note
from harness.c05 import to_plain

PID = "C06"
FILES = ["yamlpath/differ/differ.py", "yamlpath/differ/diffentry.py", "yamlpath/differ/differconfig.py",
         "yamlpath/differ/enums/diffactions.py"]
FUNCTIONS = ["Differ.compare_to", "Differ._diff_between/_diff_scalars/_diff_dicts/_diff_lists/_diff_arrays_of_scalars/"
             "_diff_arrays_of_hashes/_diff_synced_lists", "Differ.synchronize_lists_by_value/synchronize_lods_by_key",
             "Differ.get_report", "DiffEntry", "DifferConfig.array_diff_mode/aoh_diff_mode/aoh_diff_key"]
STUBS = ["logger: real ConsolePrinter(quiet)", "documents are built directly (no line/column data from a loader)"]
OUTSIDE = ["sets, tags, EYAML values; documents beyond the pair catalogue; per-path diff rules",
           "in the key/deep AoH modes only lists whose members are all hashes with the identity key"]
ASSUMPTIONS = ["oracle: the two documents themselves (a plain resolver for entry paths) and plain data equality"]

A, C, D, S = DiffActions.ADD, DiffActions.CHANGE, DiffActions.DELETE, DiffActions.SAME

PAIRS = {
    "edit": (lambda a, b, c, d: (cmap(("k", a), ("l", cseq(b, c))), cmap(("k", d), ("l", cseq(b, d, a)))),
             "{k: a, l: [b, c]} vs {k: d, l: [b, d, a]}"),
    "keys": (lambda a, b, c, d: (cmap(("x", a), ("h", cmap(("p", b), ("q", c)))), cmap(("h", cmap(("q", d), ("r", a))), ("y", b))),
             "added and deleted keys at two levels"),
    "nulls": (lambda a, b, c, d: (cmap(("l", cseq(a, None, b))), cmap(("l", cseq(c, None, d)))), "{l: [a, null, b]} vs {l: [c, null, d]}"),
    "null_tail": (lambda a, b, c, d: (cseq(a, None), cseq(b, None)), "[a, null] vs [b, null]"),
    "shrink": (lambda a, b, c, d: (cmap(("l", cseq(a, b)), ("m", cseq(c))), cmap(("l", cseq()), ("m", cseq(d)))),
               "{l: [a, b], m: [c]} vs {l: [], m: [d]}"),
    "root_shrink": (lambda a, b, c, d: (cseq(a, b), cseq()), "[a, b] vs []"),
    "grow": (lambda a, b, c, d: (cmap(("l", cseq())), cmap(("l", cseq(a, b)))), "{l: []} vs {l: [a, b]}"),
    "clash": (lambda a, b, c, d: (cmap(("a", a), ("b", cmap(("p", b)))), cmap(("a", cseq(c)), ("b", d))),
              "{a: a, b: {p: b}} vs {a: [c], b: d} (type clashes)"),
    "reorder": (lambda a, b, c, d: (cmap(("l", cseq(a, b, c))), cmap(("l", cseq(c, a, d)))), "{l: [a, b, c]} vs {l: [c, a, d]}"),
    "aoh": (lambda a, b, c, d: (cmap(("w", cseq(cmap(("id", 1), ("v", a)), cmap(("id", 2), ("v", b))))),
                                cmap(("w", cseq(cmap(("id", 2), ("v", c)), cmap(("id", 1), ("v", d)))))),
            "{w: [{id: 1, v: a}, {id: 2, v: b}]} vs {w: [{id: 2, v: c}, {id: 1, v: d}]}"),
    "aoh_grow": (lambda a, b, c, d: (cmap(("w", cseq(cmap(("id", 1), ("v", a))))),
                                     cmap(("w", cseq(cmap(("id", 1), ("v", b)), cmap(("id", 3), ("v", c)))))),
                 "AoH with an added record"),
    "aoh_ids": (lambda a, b, c, d: (cmap(("w", cseq(cmap(("id", a), ("v", 1)), cmap(("id", b), ("v", 2))))),
                                    cmap(("w", cseq(cmap(("id", b), ("v", 2)), cmap(("id", a), ("v", c)))))),
                "AoH with symbolic identity keys (0 and equal keys reachable), reordered"),
    "aoh_same": (lambda a, b, c, d: (cmap(("w", cseq(cmap(("id", a), ("v", b)), cmap(("id", c), ("v", d))))),
                                     cmap(("w", cseq(cmap(("id", a), ("v", b)), cmap(("id", c), ("v", d)))))),
                 "AoH against an equal copy, symbolic identity keys"),
    "same": (lambda a, b, c, d: (cmap(("k", a), ("l", cseq(b, None, cmap(("p", c)))), ("e", cseq()), ("f", cmap())),
                                 cmap(("k", a), ("l", cseq(b, None, cmap(("p", c)))), ("e", cseq()), ("f", cmap()))),
             "a document against an equal copy (nulls, empty containers)"),
}


def _styles():
    """Scalars as the round-trip loader types them: the same datum written in different styles has different classes."""
    from ruamel.yaml.scalarstring import SingleQuotedScalarString, DoubleQuotedScalarString
    from ruamel.yaml.scalarint import HexInt
    return ["a", SingleQuotedScalarString("a"), "b", 80, HexInt(80), DoubleQuotedScalarString("b")]


def _styled(a, b, c, d):
    from crosshair import realize
    k = realize(a)            # one combined selector: independent selectors multiply the explored paths
    a, b, c = k % 6, (k // 6) % 6, k // 36
    p, q = _styles(), _styles()
    return cmap(("l", cseq(p[a], p[b]))), cmap(("l", cseq(q[c], q[b])))


PAIRS["styled"] = (_styled, "{l: [x, y]} vs {l: [u, y']} over the pool [a, 'a', b, 80, 0x50, \"b\"] (equal data in different "
                            "scalar styles = different ruamel classes)")
ARRAY_MODES = ["position", "value"]
AOH_MODES = ["position", "dpos", "value", "key", "deep"]


def _resolve(doc, path):
    """(found, node) for a path of plain keys/indexes."""
    cur = doc
    for stype, attr in YAMLPath(path).escaped:
        if stype == PathSegmentTypes.INDEX and isinstance(attr, int):
            if not isinstance(cur, list) or not (0 <= attr < len(cur)):
                return False, None
            cur = cur[attr]
        elif stype == PathSegmentTypes.KEY:
            if isinstance(cur, dict) and attr in cur:
                cur = cur[attr]
            else:
                return False, None
        else:
            return False, None
    return True, cur


def _leaf_paths(node, prefix, out):
    if isinstance(node, dict):
        if not node:
            return
        for k, v in node.items():
            _leaf_paths(v, prefix + [("k", k)], out)
    elif isinstance(node, list):
        if not node:
            return
        for i, v in enumerate(node):
            _leaf_paths(v, prefix + [("i", i)], out)
    else:
        out.append(prefix)


def _trail_of(path):
    out = []
    for stype, attr in YAMLPath(path).escaped:
        out.append(("i", attr) if stype == PathSegmentTypes.INDEX else ("k", attr))
    return out


def _data_eq(x, y, unordered):
    """Plain data equality; with `unordered` lists compare as multisets (sequence order disregarded)."""
    if isinstance(x, dict):
        if not isinstance(y, dict) or set(x.keys()) != set(y.keys()):
            return False
        for k in x:
            if not _data_eq(x[k], y[k], unordered):
                return False
        return True
    if isinstance(x, list):
        if not isinstance(y, list) or len(x) != len(y):
            return False
        if not unordered:
            for p, q in zip(x, y):
                if not _data_eq(p, q, unordered):
                    return False
            return True
        rest = list(y)
        for p in x:
            hit = -1
            for i, q in enumerate(rest):
                if _data_eq(p, q, unordered):
                    hit = i
                    break
            if hit < 0:
                return False
            del rest[hit]
        return True
    if isinstance(y, (dict, list)):
        return False
    return x == y


def diff_ok(pair: str, amode: int, omode: int, a: int, b: int, c: int, d: int) -> bool:
    """Entries are truthful (positional), complete, and non-SAME entries exist iff the data differ."""
    lhs, rhs = PAIRS[pair][0](a, b, c, d)
    pl, pr = to_plain(lhs), to_plain(rhs)
    if omode in (3, 4) and pair == "aoh_ids" and a == b:
        return True        # identity keys must identify: duplicate keys make key-synchronisation ill-defined
    if omode in (3, 4) and pair == "aoh_same" and a == c:
        return True
    args = SimpleNamespace(config=None, arrays=ARRAY_MODES[amode], aoh=AOH_MODES[omode])
    differ = Differ(DifferConfig(LOG, args), LOG, lhs)
    differ.compare_to(rhs)
    entries = [(e.action, str(e.path), e.lhs, e._rhs) for e in differ.get_report()]
    note(left=pl, right=pr, arrays=ARRAY_MODES[amode], aoh=AOH_MODES[omode],
         entries=[(x[0].name, x[1], to_plain(x[2]), to_plain(x[3])) for x in entries])
    positional = amode == 0 and omode in (0, 1)
    if positional:
        for (act, path, lv, rv) in entries:
            if act in (S, C, D):
                found, node = _resolve(lhs, path)
                if not found or to_plain(node) != to_plain(lv):
                    note(problem="entry %s %s: left value is not what the left document holds there" % (act.name, path))
                    return False
            if act in (S, C, A):
                found, node = _resolve(rhs, path)
                if not found or to_plain(node) != to_plain(rv):
                    note(problem="entry %s %s: right value is not what the right document holds there" % (act.name, path))
                    return False
            if act is S and to_plain(lv) != to_plain(rv):
                note(problem="SAME entry %s with different values" % path)
                return False
            if act is C and to_plain(lv) == to_plain(rv):
                note(problem="CHANGE entry %s with equal values" % path)
                return False
        # completeness: every leaf of either side is covered by an entry at its path or an ancestor path
        covered = [_trail_of(p) for (_a, p, _l, _r) in entries]
        for side, doc in (("left", pl), ("right", pr)):
            leaves = []
            _leaf_paths(doc, [], leaves)
            for lp in leaves:
                if not any(lp[:len(cv)] == cv for cv in covered):
                    note(problem="%s leaf %r is not covered by any entry" % (side, lp))
                    return False
    unordered = not (amode == 0 and omode in (0, 1))
    differs = not _data_eq(pl, pr, unordered)
    has_change = any(act is not S for (act, _p, _l, _r) in entries)
    if differs != has_change:
        note(problem="documents %s as data but the report %s a non-SAME entry" % (
            "differ" if differs else "are equal", "has" if has_change else "lacks"))
        return False
    return True


def reuse(amode: int, a: int, b: int, c: int, d: int) -> bool:
    """One Differ compared against two documents in turn reports the second comparison like a fresh Differ does."""
    lhs = cmap(("k", a), ("l", cseq(b, None)))
    r1 = cmap(("k", c), ("l", cseq(d)), ("x", 1))
    r2 = cmap(("k", d), ("l", cseq(b, None, c)))
    args = SimpleNamespace(config=None, arrays=ARRAY_MODES[amode], aoh="position")
    used = Differ(DifferConfig(LOG, args), LOG, lhs)
    used.compare_to(r1)
    list(used.get_report())
    used.compare_to(r2)
    fresh = Differ(DifferConfig(LOG, args), LOG, cmap(("k", a), ("l", cseq(b, None))))
    fresh.compare_to(cmap(("k", d), ("l", cseq(b, None, c))))
    u = [(e.action, str(e.path), to_plain(e.lhs), to_plain(e._rhs)) for e in used.get_report()]
    f = [(e.action, str(e.path), to_plain(e.lhs), to_plain(e._rhs)) for e in fresh.get_report()]
    note(reused=[(x[0].name,) + x[1:] for x in u], fresh=[(x[0].name,) + x[1:] for x in f])
    return u == f and to_plain(lhs) == {"k": a, "l": [b, None]}


def accounting(amode: int, a: int, b: int, c: int, d: int, e: int) -> bool:
    """Value-synchronised arrays: each left element once as same/changed/deleted, each right once as same/changed/added."""
    lhs, rhs = cmap(("l", cseq(a, b, c))), cmap(("l", cseq(d, e)))
    args = SimpleNamespace(config=None, arrays=ARRAY_MODES[amode], aoh="position")
    differ = Differ(DifferConfig(LOG, args), LOG, lhs)
    differ.compare_to(rhs)
    nl = nr = 0
    for en in differ.get_report():
        if en.action in (S, C, D):
            nl += 1
        if en.action in (S, C, A):
            nr += 1
    note(left=[a, b, c], right=[d, e], left_accounted=nl, right_accounted=nr)
    return nl == 3 and nr == 2


def shards(tier, seed):
    out = []
    leaves = "-2 <= a <= 2 and -2 <= b <= 2 and -2 <= c <= 2 and -2 <= d <= 2"
    names = [n for n in PAIRS if n != "styled"] if tier == "thorough" else ["edit", "keys", "nulls", "null_tail", "shrink", "root_shrink", "clash",
                                                    "reorder", "aoh", "aoh_ids", "aoh_same", "same"]
    for name in names:
        is_aoh = name.startswith("aoh")
        combos = []
        if is_aoh:
            combos = [(0, o) for o in range(5)] if tier == "thorough" else [(0, 0), (0, 1), (0, 3), (0, 4)]
        else:
            combos = [(0, 0), (1, 0)]
        for am, om in combos:
            out.append(shard(PID, "diff/%s/%s_%s" % (name, ARRAY_MODES[am], AOH_MODES[om]), "harness.c06",
                             "diff_ok(%r, %d, %d, a, b, c, d)" % (name, am, om),
                             [("a", "int"), ("b", "int"), ("c", "int"), ("d", "int")], [leaves],
                             family="diff/%s" % name, budget=900,
                             desc="%s; arrays=%s aoh=%s" % (PAIRS[name][1], ARRAY_MODES[am], AOH_MODES[om]),
                             bounds={"a..d": "[-2,2] (all equal/unequal patterns of 4 leaves)"}))
    for am in (0, 1):
        out.append(shard(PID, "diff/styled/%s" % ARRAY_MODES[am], "harness.c06", "diff_ok('styled', %d, 0, k, 0, 0, 0)" % am,
                         [("k", "int")], ["0 <= k < 216"], family="diff/styled", budget=1200,
                         kind="S", desc=PAIRS["styled"][1] + "; arrays=" + ARRAY_MODES[am]))
    for am in (0, 1):
        out.append(shard(PID, "reuse/%s" % ARRAY_MODES[am], "harness.c06", "reuse(%d, a, b, c, d)" % am,
                         [("a", "int"), ("b", "int"), ("c", "int"), ("d", "int")], [leaves], family="reuse", budget=900,
                         desc="one Differ used for two comparisons in a row vs a fresh Differ; left document untouched"))
        out.append(shard(PID, "accounting/%s" % ARRAY_MODES[am], "harness.c06", "accounting(%d, a, b, c, d, e)" % am,
                         [("a", "int"), ("b", "int"), ("c", "int"), ("d", "int"), ("e", "int")],
                         [leaves + " and -2 <= e <= 2"], family="accounting", budget=900,
                         desc="[a, b, c] vs [d, e]: every element accounted exactly once (arrays=%s)" % ARRAY_MODES[am]))
    return out
