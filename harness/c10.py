"""C10 - anchor conflicts in a merge follow the chosen policy and the result reloads."""
import io
from types import SimpleNamespace

from crosshair import realize, NoTracing, deep_realize
from ruamel.yaml.scalarstring import PlainScalarString

from yamlpath.common import Parsers, Anchors
from yamlpath.merger import Merger, MergerConfig
from yamlpath.merger.exceptions import MergeException

from vf.common import LOG, cmap, cseq
from vf.shard import shard, note

PID = "C10"
FILES = ["yamlpath/merger/merger.py", "yamlpath/common/anchors.py", "yamlpath/merger/mergerconfig.py",
         "yamlpath/common/parsers.py"]
FUNCTIONS = ["Merger.merge_with", "Merger._resolve_anchor_conflicts", "Merger._calc_unique_anchor", "Anchors.scan_for_anchors",
             "Anchors.rename_anchor", "Anchors.replace_anchor", "MergerConfig.anchor_merge_mode",
             "Merger.prepare_for_dump + ruamel dump + Parsers.get_yaml_data (strict reload; concrete, on every explored path)"]
STUBS = ["dump/reload runs untraced on the merged document (ruamel emitter/scanner are outside symbolic reach)"]
OUTSIDE = ["anchored hashes/arrays and YAML merge keys (<<:); anchor names and values outside the pools",
           "entirely selector-driven (anchored scalars are C-constructed ruamel objects): a solver-enumerated finite space"]
ASSUMPTIONS = ["oracle: per-policy expectations of the property statement on the object graph, then strict reload equality"]

NAMES = ["a", "b", "a_1"]
VALUES = ["v1", "v2"]
# typed pool: the same text as a string and as an integer are DIFFERENT values
from ruamel.yaml.scalarint import ScalarInt  # noqa: E402
TYPED = [lambda anc: PlainScalarString("1", anchor=anc), lambda anc: ScalarInt(1, anchor=anc),
         lambda anc: PlainScalarString("v", anchor=anc)]
POLICIES = ["stop", "left", "right", "rename"]


def _dump_reload(data):
    with NoTracing():
        real = deep_realize(data)
        yaml = Parsers.get_yaml_editor()
        buf = io.StringIO()
        yaml.dump(real, buf)
        text = buf.getvalue()
        (back, ok) = Parsers.get_yaml_data(Parsers.get_yaml_editor(), LOG, text, literal=True)
        return text, back, ok


def _plain(n):
    if isinstance(n, dict):
        return {str(k): _plain(v) for k, v in n.items()}
    if isinstance(n, list):
        return [_plain(v) for v in n]
    return str(n) if isinstance(n, str) else n


def anchors_merge(place: int, pol: int, k: int) -> bool:
    """Same-name scalar anchors with different values follow the policy; the result dumps and reloads to itself."""
    # one combined selector (decoded after realisation) keeps the solver-enumerated space linear
    k = realize(k)
    nl, k = k % 3, k // 3
    nr, k = k % 3, k // 3
    vl, k = k % 2, k // 2
    vr, k = k % 2, k // 2
    extra, k = k % 2, k // 2
    arrays = k % 2
    lnode = PlainScalarString(VALUES[vl], anchor=NAMES[nl])
    rnode = PlainScalarString(VALUES[vr], anchor=NAMES[nr])
    if place == 0:
        lhs = cmap(("la", lnode), ("lb", lnode), ("k", 1))
        rhs = cmap(("ra", rnode), ("rb", rnode), ("rl", cseq(rnode, "z")))
    else:
        lhs = cmap(("ll", cseq(lnode, "y", lnode)), ("la", lnode))
        rhs = cmap(("ll", cseq(rnode, rnode)), ("ra", rnode))
    if NAMES[nl] == "a_1" or NAMES[nr] == "a_1":
        extra = 0
    if extra:
        # a third anchored scalar whose name collides with the rename target of 'a'
        lhs["lx"] = PlainScalarString("x", anchor="a_1")
    policy = POLICIES[pol]
    args = SimpleNamespace(anchors=policy, arrays=["all", "unique"][arrays], config=None, mergeat="/")
    note(lhs=_plain(lhs), rhs=_plain(rhs), left_anchor=NAMES[nl], right_anchor=NAMES[nr], policy=policy)
    merger = Merger(LOG, lhs, MergerConfig(LOG, args))
    conflict = NAMES[nl] == NAMES[nr] and VALUES[vl] != VALUES[vr]
    try:
        merger.merge_with(rhs)
        refused = False
    except MergeException:
        refused = True
    if conflict and policy == "stop":
        return refused
    if refused:
        note(problem="merge refused although there is no conflict or the policy resolves it")
        return False
    data = merger.data
    # where the left/right aliases ended up
    if place == 0:
        lspots = [data["la"], data["lb"]]
        rspots = [data["ra"], data["rb"], data["rl"][0]]
    else:
        n_l = 3
        lspots = [data["ll"][0], data["ll"][2], data["la"]]
        rspots = [data["ra"]] + [x for x in list(data["ll"])[n_l:] if x != "y"]
    want_l, want_r = VALUES[vl], VALUES[vr]
    if conflict and policy == "left":
        want_r = VALUES[vl]
    if conflict and policy == "right":
        want_l = VALUES[vr]
    for n in lspots:
        if n != want_l:
            note(problem="an alias of the left anchor reads %r, expected %r" % (str(n), want_l))
            return False
    for n in rspots:
        if n != want_r:
            note(problem="an alias of the right anchor reads %r, expected %r" % (str(n), want_r))
            return False
    if conflict and policy == "rename":
        names_r = set(n.anchor.value for n in rspots)
        names_l = set(n.anchor.value for n in lspots)
        if len(names_r) != 1 or len(names_l) != 1 or names_r == names_l:
            note(problem="renamed anchor not consistent/distinct: left %r right %r" % (names_l, names_r))
            return False
        if extra and data["lx"].anchor.value in names_r:
            note(problem="renamed anchor collides with an existing anchor")
            return False
    merger.prepare_for_dump(Parsers.get_yaml_editor())
    text, back, ok = _dump_reload(merger.data)
    note(dumped=text)
    if not ok:
        note(problem="dumped result does not reload")
        return False
    if _plain(back) != _plain(merger.data):
        note(problem="reloaded data differs", reloaded=_plain(back), computed=_plain(merger.data))
        return False
    return True


def typed_conflict(k: int) -> bool:
    """Same anchor name, values of different type that print alike (1 vs '1'): still a conflict."""
    k = realize(k)
    tl, k = k % 3, k // 3
    tr, k = k % 3, k // 3
    pol = k % 4
    lnode, rnode = TYPED[tl]("sh"), TYPED[tr]("sh")
    lhs = cmap(("la", lnode), ("lb", lnode))
    rhs = cmap(("ra", rnode), ("rb", rnode))
    policy = POLICIES[pol]
    merger = Merger(LOG, lhs, MergerConfig(LOG, SimpleNamespace(anchors=policy, config=None, mergeat="/")))
    same = (tl == tr)
    note(left=repr(lnode), right=repr(rnode), policy=policy)
    try:
        merger.merge_with(rhs)
        refused = False
    except MergeException:
        refused = True
    if same:
        return not refused
    if policy == "stop":
        return refused
    if refused:
        return False
    d = merger.data
    lv, rv = (type(lnode).__name__, str(lnode)), (type(rnode).__name__, str(rnode))

    def sig(n):
        return (type(n).__name__, str(n))
    if policy == "left":
        return all(sig(d[k2]) == lv for k2 in ("la", "lb", "ra", "rb"))
    if policy == "right":
        return all(sig(d[k2]) == rv for k2 in ("la", "lb", "ra", "rb"))
    return (sig(d["la"]) == lv and sig(d["lb"]) == lv and sig(d["ra"]) == rv and sig(d["rb"]) == rv
            and d["ra"].anchor.value != d["la"].anchor.value and d["ra"].anchor.value == d["rb"].anchor.value)


def chain(k: int) -> bool:
    """Three documents merged in order into one Merger, the same anchor name in each with its own value."""
    k = realize(k)
    pol, k = k % 4, k // 4
    v3same = k % 2
    vals = ["v1", "v2", "v2" if v3same else "v3"]
    docs3 = [cmap(("k%d" % n, PlainScalarString(vals[n], anchor="x")), ("a%d" % n, None)) for n in range(3)]
    for n in range(3):
        docs3[n]["a%d" % n] = docs3[n]["k%d" % n]
    policy = POLICIES[pol]
    merger = Merger(LOG, docs3[0], MergerConfig(LOG, SimpleNamespace(anchors=policy, config=None, mergeat="/")))
    note(policy=policy, values=vals)
    try:
        merger.merge_with(docs3[1])
        merger.merge_with(docs3[2])
    except MergeException:
        return policy == "stop"
    if policy == "stop":
        return False
    d = merger.data
    got = [str(d["k%d" % n]) for n in range(3)]
    names = [d["k%d" % n].anchor.value for n in range(3)]
    note(values_after=got, anchor_names=names)
    if policy == "left":
        ok = got == ["v1", "v1", "v1"]
    elif policy == "right":
        ok = got == [vals[2], vals[2], vals[2]]
    else:
        ok = got == vals and all(str(d["a%d" % n]) == vals[n] for n in range(3))
        # distinct values must live under distinct anchor names
        for x in range(3):
            for y in range(x + 1, 3):
                if vals[x] != vals[y] and names[x] == names[y]:
                    ok = False
    if not ok:
        return False
    merger.prepare_for_dump(Parsers.get_yaml_editor())
    text, back, loaded = _dump_reload(merger.data)
    note(dumped=text)
    return loaded and _plain(back) == _plain(merger.data)


def shards(tier, seed):
    out = []
    n = 3 * 3 * 2 * 2 * 2 * (2 if tier == "thorough" else 1)
    for place in (0, 1):
        for pol in range(4):
            out.append(shard(PID, "place%d/%s" % (place, POLICIES[pol]), "harness.c10",
                             "anchors_merge(%d, %d, k)" % (place, pol), [("k", "int")], ["0 <= k < %d" % n],
                             family="anchors/%s" % POLICIES[pol], budget=900, kind="S",
                             desc="anchored scalars %s; policy %s; k selects left/right anchor names from %r, values "
                                  "from %r, an extra colliding anchor, arrays policy" % (
                                      "under hash keys + list alias" if place == 0 else "inside arrays at an equal key",
                                      POLICIES[pol], NAMES, VALUES),
                             bounds={"k": "combined selector, %d combinations" % n}))
    out.append(shard(PID, "chain", "harness.c10", "chain(k)", [("k", "int")], ["0 <= k < 8"], family="anchors/chain", budget=600,
                     kind="S", desc="three documents merged in order, the same anchor name with its own value in each"))
    out.append(shard(PID, "typed", "harness.c10", "typed_conflict(k)", [("k", "int")], ["0 <= k < 36"], family="anchors/typed",
                     budget=600, kind="S", desc="same anchor name, values '1' / 1 / 'v' on either side x four policies"))
    return out
