"""C16 - the command-line tools deliver the library's answers and honest exit codes (narrow claim)."""
import contextlib
import io
import json
import sys

from crosshair import realize

import yamlpath.commands.yaml_get as yg
import yamlpath.commands.yaml_diff as yd
import yamlpath.commands.yaml_validate as yv
import yamlpath.commands.yaml_paths as yp
from yamlpath.common import Parsers

from vf.common import cmap, cseq
from vf.shard import shard, note

PID = "C16"
FILES = ["yamlpath/commands/yaml_get.py", "yamlpath/commands/yaml_diff.py", "yamlpath/commands/yaml_validate.py",
         "yamlpath/commands/yaml_paths.py",
         "yamlpath/common/parsers.py", "yamlpath/wrappers/consoleprinter.py", "yamlpath/differ/differ.py", "yamlpath/processor.py"]
FUNCTIONS = ["yaml_get.main/processcli/validateargs (real argparse over sys.argv)", "EYAMLProcessor.get_eyaml_values",
             "Parsers.jsonify_yaml_data", "yaml_diff.main/get_docs/get_doc/print_report", "Differ.compare_to/get_report",
             "yaml_validate.main/process_file", "ConsolePrinter.info/error/critical",
             "yaml_paths.main/validateargs/process_yaml_file/print_results/get_search_term/search_for_paths",
             "yaml_merge.main/merge_docs/merge_across/write_output_document, Merger.prepare_for_dump (stdout, format selection)"]
STUBS = ["document loading: Parsers.get_yaml_data / get_yaml_multidoc_data return harness-built documents (ruamel's scanner "
         "on symbolic bytes is beyond the engine)", "isfile() answers True for the harness file names; stdin is a tty"]
OUTSIDE = ["leaves outside [-2,2] ([-1,1] for yaml-diff): printing realises every value, so the leaf domain is enumerated",
           "yaml-set's reloaded file, yaml-merge output to files and with symbolic content, file-versus-stdin equivalence, YAML/JSON input parsing, "
           "free symbolic argv strings: these clauses of C16 need real bytes through ruamel's loader/dumper and get no "
           "verdict from this technique", "yaml-paths: the search semantics proper are C07's; here the relay from results to "
           "stdout lines (file/document prefix, expression tag, value column, --except filtering, de-duplication, exit status)"]
ASSUMPTIONS = ["expected stdout/exit status computed from the harness document by a direct model"]


@contextlib.contextmanager
def _argv(argv):
    saved = sys.argv
    sys.argv = argv
    out, err = io.StringIO(), io.StringIO()
    try:
        with contextlib.redirect_stdout(out), contextlib.redirect_stderr(err):
            yield out, err
    finally:
        sys.argv = saved


def _run(main):
    try:
        main()
    except SystemExit as ex:
        return ex.code if ex.code is not None else 0
    return 0


def get_main(query: int, i: int, slash: bool, a: int, b: int, c: int) -> bool:
    """yaml-get prints one line per matched node in query order (JSON for containers) and exits 0 iff matched."""
    query = realize(query)
    data = cmap(("l", cseq(a, b)), ("h", cmap(("p", c))), ("n", None))
    q = ["l[" + str(i) + "]", "l.*", "h", "l", "nope", "h.p", "n", "l[.>0]"][query]
    if slash:
        q = "/" + q.replace(".*", "/*").replace("h.p", "h/p")
        if query == 7:
            q = "/l[.>0]"
    saved = Parsers.get_yaml_data
    Parsers.get_yaml_data = staticmethod(lambda parser, logger, source, **kw: (data, True))
    try:
        with _argv(["yaml-get", "--query", q, "f.yaml"]) as (out, err):
            code = _run(yg.main)
    finally:
        Parsers.get_yaml_data = saved
    text = out.getvalue()
    if query == 0:
        want = [str([a, b][i])] if 0 <= i < 2 or -2 <= i < 0 else None
    elif query == 1:
        want = [str(a), str(b)]
    elif query == 2:
        want = [json.dumps({"p": c})]
    elif query == 3:
        want = [json.dumps([a, b])]
    elif query == 4:
        want = None
    elif query == 5:
        want = [str(c)]
    elif query == 6:
        want = ["\x00"]
    else:
        want = [str(v) for v in (a, b) if v > 0] or None
    note(query=q, exit_status=code, stdout=text, expected_lines=want)
    if want is None:
        return code != 0 and text == ""
    return code == 0 and text == "".join(w + "\n" for w in want)


def diff_main(a: int, b: int, c: int, d: int, quiet: bool) -> bool:
    """yaml-diff exits 0 exactly when the two documents are data-equal and otherwise prints the differ's entries."""
    lhs = cmap(("k", a), ("l", cseq(b, 1)))
    rhs = cmap(("k", c), ("l", cseq(d, 1)))
    saved = (Parsers.get_yaml_multidoc_data, yd.isfile)
    docs = {"l.yaml": lhs, "r.yaml": rhs}
    Parsers.get_yaml_multidoc_data = staticmethod(lambda parser, logger, source, **kw: iter([(docs[source], True)]))
    yd.isfile = lambda p: True
    try:
        argv = ["yaml-diff"] + (["--quiet"] if quiet else []) + ["l.yaml", "r.yaml"]
        with _argv(argv) as (out, err):
            code = _run(yd.main)
    finally:
        (Parsers.get_yaml_multidoc_data, yd.isfile) = saved
    text = out.getvalue()
    equal = (a == c) and (b == d)
    note(left={"k": a, "l": [b, 1]}, right={"k": c, "l": [d, 1]}, exit_status=code, stdout=text)
    if (code == 0) != equal:
        return False
    if quiet:
        return text == ""
    # one 'c' entry per changed leaf, naming its path
    want_k = a != c
    want_l = b != d
    has_k = "c k" in text
    has_l = "c l[0]" in text
    return has_k == want_k and has_l == want_l and ("l[1]" not in text)


ROOTS = [None, 0, False, "", 0.0, 1, "x", True]


def diff_roots(k: int) -> bool:
    """yaml-diff on documents whose root is a scalar (null, falsy and truthy values): exit 0 iff data-equal."""
    k = realize(k)
    lk, rk = k % len(ROOTS), k // len(ROOTS)
    lhs, rhs = ROOTS[lk], ROOTS[rk]
    saved = (Parsers.get_yaml_multidoc_data, yd.isfile)
    docs = {"l.yaml": lhs, "r.yaml": rhs}
    Parsers.get_yaml_multidoc_data = staticmethod(lambda parser, logger, source, **kw: iter([(docs[source], True)]))
    yd.isfile = lambda p: True
    try:
        with _argv(["yaml-diff", "l.yaml", "r.yaml"]) as (out, err):
            code = _run(yd.main)
    finally:
        (Parsers.get_yaml_multidoc_data, yd.isfile) = saved

    def norm(x):
        return None if (isinstance(x, str) and x == "") else x     # an empty-string document is read as empty (null)
    a, b = norm(lhs), norm(rhs)
    equal = (a is None and b is None) or (a is not None and b is not None and type(a) is type(b) and a == b)
    note(left=repr(lhs), right=repr(rhs), exit_status=code, stdout=out.getvalue())
    if type(a) is not type(b) and a is not None and b is not None and a == b:
        return True        # 0 vs False vs 0.0: whether these are 'data-equal' is not settled here
    return (code == 0) == equal


def validate_main(n1: int, n2: int, bad1: int, bad2: int) -> bool:
    """yaml-validate exits 0 exactly when every document of every file loads."""
    def stream(n, bad):
        return [(cmap(("d", k)) if k != bad else None, k != bad) for k in range(n)]
    files = {"one.yaml": stream(n1, bad1), "two.yaml": stream(n2, bad2)}
    saved = Parsers.get_yaml_multidoc_data

    def fake(parser, logger, source, **kw):
        for (doc, ok) in files[source]:
            if not ok:
                logger.error("syntax error")
            yield (doc, ok)
    Parsers.get_yaml_multidoc_data = staticmethod(fake)
    try:
        with _argv(["yaml-validate", "--nostdin", "one.yaml", "two.yaml"]) as (out, err):
            code = _run(yv.main)
    finally:
        Parsers.get_yaml_multidoc_data = saved
    all_ok = not (0 <= bad1 < n1) and not (0 <= bad2 < n2)
    note(documents=[n1, n2], invalid_at=[bad1, bad2], exit_status=code, stdout=out.getvalue())
    if (code == 0) != all_ok:
        return False
    return all_ok or ("is invalid" in out.getvalue())


def paths_main(a: int, b: int, c: int, values: bool, nofile: bool, two: bool, exc: bool, slash: bool, ndocs: int) -> bool:
    """yaml-paths prints exactly the search results: one line per matching leaf, in document order, per document."""
    def doc(k):
        return cmap(("k", a + k), ("l", cseq(b, c)), ("t", "x"))
    stream = [doc(k) for k in range(ndocs)]
    saved = Parsers.get_yaml_multidoc_data
    Parsers.get_yaml_multidoc_data = staticmethod(lambda parser, logger, source, **kw: iter([(d, True) for d in stream]))
    argv = ["yaml-paths", "--nostdin", "--search", "=1"]
    if two:
        argv += ["--search", "=2"]
    if exc:
        argv += ["--except", "=1"] if two else ["--except", "$1"]
    if values:
        argv.append("--values")
    if nofile:
        argv.append("--nofile")
    if slash:
        argv += ["--pathsep", "/"]
    argv.append("f.yaml")
    try:
        with _argv(argv) as (out, err):
            code = _run(yp.main)
    finally:
        Parsers.get_yaml_multidoc_data = saved
    text = out.getvalue()
    want = []
    for k in range(ndocs):
        cells = [("/k" if slash else "k", a + k), ("/l[0]" if slash else "l[0]", b), ("/l[1]" if slash else "l[1]", c)]
        hits = []
        for expr, val in ((("=1", 1), ("=2", 2)) if two else (("=1", 1),)):
            for path, v in cells:
                if v == val and not (exc and v == 1):
                    hits.append((expr, path, v))
        for expr, path, v in hits:
            line = ""
            if not nofile:
                line += "f.yaml/%d" % k
            if two:
                line += "[%s]" % expr
            line += ": " if (not nofile or two) else ""
            line += path
            if values:
                line += ": " + str(v)
            want.append(line)
    note(argv=argv, documents=[{"k": a + k, "l": [b, c], "t": "x"} for k in range(ndocs)], exit_status=code, stdout=text,
         expected_lines=want)
    return code == 0 and text == "".join(w + "\n" for w in want)


def merge_main(k: int) -> bool:
    """yaml-merge prints the model merge of its inputs in the requested format (stdout; merge_across over 1..2 left documents)."""
    from types import SimpleNamespace
    from crosshair import NoTracing
    import yamlpath.commands.yaml_merge as ym
    from harness.c18 import pmerge
    from harness.c05 import to_plain
    k = realize(k)
    nl, k = 1 + k % 2, k // 2
    flow0, k = k % 2, k // 2
    flow1, k = k % 2, k // 2
    fmt, k = ["auto", "yaml", "json"][k % 3], k // 3
    v = k % 2
    flows = [flow0, flow1][:nl]
    ldocs = []
    for i in range(nl):
        d = cmap(("a", i + 1), ("l", cseq(v, "t")), ("h", cmap(("p", "x y"))))
        if flows[i]:
            d.fa.set_flow_style()
        else:
            d.fa.set_block_style()
        ldocs.append(d)
    rdocs = [cmap(("a", 9), ("h", cmap(("q", v))))]
    rdocs[0].fa.set_block_style()
    pl = [to_plain(x) for x in ldocs]
    pr = [to_plain(x) for x in rdocs]
    args = SimpleNamespace(quiet=True, verbose=False, debug=False, output=None, overwrite=None, backup=False,
                           yaml_files=["l.yaml", "r.yaml"], config=None, mergeat="/", nostdin=True, json_indent=-1,
                           document_format=fmt, hashes=None, arrays=None, aoh=None, sets=None, anchors="stop",
                           multi_doc_mode="merge_across", preserve_lhs_comments=False)
    docs = {"l.yaml": ldocs, "r.yaml": rdocs}
    saved = (ym.processcli, Parsers.get_yaml_multidoc_data, ym.isfile)
    ym.processcli = lambda: args
    ym.isfile = lambda p_: True
    Parsers.get_yaml_multidoc_data = staticmethod(lambda parser, logger, source, **kw: iter([(d, True) for d in docs[source]]))
    try:
        with _argv(["yaml-merge"]) as (out, err):
            code = _run(ym.main)
    finally:
        (ym.processcli, Parsers.get_yaml_multidoc_data, ym.isfile) = saved
    text = out.getvalue()
    want = [pmerge(pl[0], pr[0])] + pl[1:]
    want_json = fmt == "json" or (fmt == "auto" and bool(flows[0]))
    note(left=pl, left_flow_style=[bool(f) for f in flows], right=pr, document_format=fmt, exit_status=code, stdout=text,
         expected_documents=want, expected_json=want_json)
    if code != 0:
        return False
    with NoTracing():
        try:
            if want_json:
                got = [json.loads(line) for line in text.splitlines() if line.strip()] if nl > 1 else [json.loads(text)]
            else:
                if text.lstrip().startswith("{"):
                    return False
                yaml = Parsers.get_yaml_editor()
                got = [to_plain(d) for d in yaml.load_all(text)]
        except Exception as ex:     # the output does not even parse in the requested format
            note(unparsable=repr(ex))
            return False
    note(reloaded=got)
    return got == want


def shards(tier, seed):
    out = []
    for q in range(8):
        uses_i = q == 0
        out.append(shard(PID, "get/q%d" % q, "harness.c16", "get_main(%d, %s, slash, a, b, c)" % (q, "i" if uses_i else "0"),
                         ([("i", "int")] if uses_i else []) + [("slash", "bool"), ("a", "int"), ("b", "int"), ("c", "int")],
                         (["-4 <= i <= 4"] if uses_i else []) + ["-2 <= a <= 2 and -2 <= b <= 2 and -2 <= c <= 2"],
                         family="get", budget=900,
                         desc="yaml-get main() through real argparse: query #%d, stdout lines and exit status" % q))
    out.append(shard(PID, "diff", "harness.c16", "diff_main(a, b, c, d, quiet)",
                     [("a", "int"), ("b", "int"), ("c", "int"), ("d", "int"), ("quiet", "bool")],
                     ["-1 <= a <= 1 and -1 <= b <= 1 and -1 <= c <= 1 and -1 <= d <= 1"], family="diff", budget=1800,
                     desc="yaml-diff main(): exit status 0 iff data-equal; report names exactly the changed leaves"))
    out.append(shard(PID, "diff_roots", "harness.c16", "diff_roots(k)", [("k", "int")], ["0 <= k < %d" % (len(ROOTS) ** 2)],
                     family="diff", budget=900, kind="S", desc="yaml-diff over scalar root documents (null, falsy, truthy)"))
    out.append(shard(PID, "validate", "harness.c16", "validate_main(n1, n2, bad1, bad2)",
                     [("n1", "int"), ("n2", "int"), ("bad1", "int"), ("bad2", "int")],
                     ["1 <= n1 <= 3 and 1 <= n2 <= 3", "-1 <= bad1 <= 3 and -1 <= bad2 <= 3"], family="validate", budget=900,
                     desc="yaml-validate main(): two files of 1..3 documents, at most one invalid each"))
    out.append(shard(PID, "merge", "harness.c16", "merge_main(k)", [("k", "int")], ["0 <= k < 48"], family="merge", budget=1800,
                     kind="S", desc="yaml-merge main() to stdout, merge_across over 1..2 left documents in block/flow style x "
                                    "--document-format auto/yaml/json: the output parses in the expected format and equals the model merge"))
    for two in (False, True):
        for exc in (False, True):
            out.append(shard(PID, "paths/%s%s" % ("two" if two else "one", "_except" if exc else ""), "harness.c16",
                             "paths_main(a, b, c, values, nofile, %r, %r, slash, 2)" % (two, exc),
                             [("a", "int"), ("b", "int"), ("c", "int"), ("values", "bool"), ("nofile", "bool"), ("slash", "bool")],
                             ["0 <= a <= 1 and 1 <= b <= 2 and 1 <= c <= 2"], family="paths", budget=1800,
                             desc="yaml-paths main() through real argparse over a 2-document stream: %s --search expression(s)%s, "
                                  "--values, --nofile, --pathsep: stdout lines and exit status vs model"
                                  % ("two" if two else "one", " and --except" if exc else "")))
    return out
