"""C16 - the command-line tools deliver the library's answers and honest exit codes (narrow claim)."""
import contextlib
import io
import json
import sys

from crosshair import realize

import yamlpath.commands.yaml_get as yg
import yamlpath.commands.yaml_diff as yd
import yamlpath.commands.yaml_validate as yv
import yamlpath.commands.yaml_paths as yp
from yamlpath.common import Parsers

from vf.common import cmap, cseq
from vf.shard import shard, note

PID = "C16"
FILES = ["yamlpath/commands/yaml_get.py", "yamlpath/commands/yaml_diff.py", "yamlpath/commands/yaml_validate.py",
         "yamlpath/commands/yaml_paths.py",
         "yamlpath/common/parsers.py", "yamlpath/wrappers/consoleprinter.py", "yamlpath/differ/differ.py", "yamlpath/processor.py"]
FUNCTIONS = ["yaml_get.main/processcli/validateargs (real argparse over sys.argv)", "EYAMLProcessor.get_eyaml_values",
             "Parsers.jsonify_yaml_data", "yaml_diff.main/get_docs/get_doc/print_report", "Differ.compare_to/get_report",
             "yaml_validate.main/process_file", "ConsolePrinter.info/error/critical",
             "yaml_paths.main/validateargs/process_yaml_file/print_results/get_search_term/search_for_paths"]
STUBS = ["document loading: Parsers.get_yaml_data / get_yaml_multidoc_data return harness-built documents (ruamel's scanner "
         "on symbolic bytes is beyond the engine)", "isfile() answers True for the harness file names; stdin is a tty"]
OUTSIDE = ["leaves outside [-2,2] ([-1,1] for yaml-diff): printing realises every value, so the leaf domain is enumerated",
           "yaml-set's reloaded file, yaml-merge output formats, file-versus-stdin equivalence, YAML/JSON input parsing, "
           "free symbolic argv strings: these clauses of C16 need real bytes through ruamel's loader/dumper and get no "
           "verdict from this technique", "yaml-paths: the search semantics proper are C07's; here the relay from results to "
           "stdout lines (file/document prefix, expression tag, value column, --except filtering, de-duplication, exit status)"]
ASSUMPTIONS = ["expected stdout/exit status computed from the harness document by a direct model"]


@contextlib.contextmanager
def _argv(argv):
    saved = sys.argv
    sys.argv = argv
    out, err = io.StringIO(), io.StringIO()
    try:
        with contextlib.redirect_stdout(out), contextlib.redirect_stderr(err):
            yield out, err
    finally:
        sys.argv = saved


def _run(main):
    try:
        main()
    except SystemExit as ex:
        return ex.code if ex.code is not None else 0
    return 0


def get_main(query: int, i: int, slash: bool, a: int, b: int, c: int) -> bool:
    """yaml-get prints one line per matched node in query order (JSON for containers) and exits 0 iff matched."""
    query = realize(query)
    data = cmap(("l", cseq(a, b)), ("h", cmap(("p", c))), ("n", None))
    q = ["l[" + str(i) + "]", "l.*", "h", "l", "nope", "h.p", "n", "l[.>0]"][query]
    if slash:
        q = "/" + q.replace(".*", "/*").replace("h.p", "h/p")
        if query == 7:
            q = "/l[.>0]"
    saved = Parsers.get_yaml_data
    Parsers.get_yaml_data = staticmethod(lambda parser, logger, source, **kw: (data, True))
    try:
        with _argv(["yaml-get", "--query", q, "f.yaml"]) as (out, err):
            code = _run(yg.main)
    finally:
        Parsers.get_yaml_data = saved
    text = out.getvalue()
    if query == 0:
        want = [str([a, b][i])] if 0 <= i < 2 or -2 <= i < 0 else None
    elif query == 1:
        want = [str(a), str(b)]
    elif query == 2:
        want = [json.dumps({"p": c})]
    elif query == 3:
        want = [json.dumps([a, b])]
    elif query == 4:
        want = None
    elif query == 5:
        want = [str(c)]
    elif query == 6:
        want = ["\x00"]
    else:
        want = [str(v) for v in (a, b) if v > 0] or None
    note(query=q, exit_status=code, stdout=text, expected_lines=want)
    if want is None:
        return code != 0 and text == ""
    return code == 0 and text == "".join(w + "\n" for w in want)


def diff_main(a: int, b: int, c: int, d: int, quiet: bool) -> bool:
    """yaml-diff exits 0 exactly when the two documents are data-equal and otherwise prints the differ's entries."""
    lhs = cmap(("k", a), ("l", cseq(b, 1)))
    rhs = cmap(("k", c), ("l", cseq(d, 1)))
    saved = (Parsers.get_yaml_multidoc_data, yd.isfile)
    docs = {"l.yaml": lhs, "r.yaml": rhs}
    Parsers.get_yaml_multidoc_data = staticmethod(lambda parser, logger, source, **kw: iter([(docs[source], True)]))
    yd.isfile = lambda p: True
    try:
        argv = ["yaml-diff"] + (["--quiet"] if quiet else []) + ["l.yaml", "r.yaml"]
        with _argv(argv) as (out, err):
            code = _run(yd.main)
    finally:
        (Parsers.get_yaml_multidoc_data, yd.isfile) = saved
    text = out.getvalue()
    equal = (a == c) and (b == d)
    note(left={"k": a, "l": [b, 1]}, right={"k": c, "l": [d, 1]}, exit_status=code, stdout=text)
    if (code == 0) != equal:
        return False
    if quiet:
        return text == ""
    # one 'c' entry per changed leaf, naming its path
    want_k = a != c
    want_l = b != d
    has_k = "c k" in text
    has_l = "c l[0]" in text
    return has_k == want_k and has_l == want_l and ("l[1]" not in text)


ROOTS = [None, 0, False, "", 0.0, 1, "x", True]


def diff_roots(k: int) -> bool:
    """yaml-diff on documents whose root is a scalar (null, falsy and truthy values): exit 0 iff data-equal."""
    k = realize(k)
    lk, rk = k % len(ROOTS), k // len(ROOTS)
    lhs, rhs = ROOTS[lk], ROOTS[rk]
    saved = (Parsers.get_yaml_multidoc_data, yd.isfile)
    docs = {"l.yaml": lhs, "r.yaml": rhs}
    Parsers.get_yaml_multidoc_data = staticmethod(lambda parser, logger, source, **kw: iter([(docs[source], True)]))
    yd.isfile = lambda p: True
    try:
        with _argv(["yaml-diff", "l.yaml", "r.yaml"]) as (out, err):
            code = _run(yd.main)
    finally:
        (Parsers.get_yaml_multidoc_data, yd.isfile) = saved

    def norm(x):
        return None if (isinstance(x, str) and x == "") else x     # an empty-string document is read as empty (null)
    a, b = norm(lhs), norm(rhs)
    equal = (a is None and b is None) or (a is not None and b is not None and type(a) is type(b) and a == b)
    note(left=repr(lhs), right=repr(rhs), exit_status=code, stdout=out.getvalue())
    if type(a) is not type(b) and a is not None and b is not None and a == b:
        return True        # 0 vs False vs 0.0: whether these are 'data-equal' is not settled here
    return (code == 0) == equal


def validate_main(n1: int, n2: int, bad1: int, bad2: int) -> bool:
    """yaml-validate exits 0 exactly when every document of every file loads."""
    def stream(n, bad):
        return [(cmap(("d", k)) if k != bad else None, k != bad) for k in range(n)]
    files = {"one.yaml": stream(n1, bad1), "two.yaml": stream(n2, bad2)}
    saved = Parsers.get_yaml_multidoc_data

    def fake(parser, logger, source, **kw):
        for (doc, ok) in files[source]:
            if not ok:
                logger.error("syntax error")
            yield (doc, ok)
    Parsers.get_yaml_multidoc_data = staticmethod(fake)
    try:
        with _argv(["yaml-validate", "--nostdin", "one.yaml", "two.yaml"]) as (out, err):
            code = _run(yv.main)
    finally:
        Parsers.get_yaml_multidoc_data = saved
    all_ok = not (0 <= bad1 < n1) and not (0 <= bad2 < n2)
    note(documents=[n1, n2], invalid_at=[bad1, bad2], exit_status=code, stdout=out.getvalue())
    if (code == 0) != all_ok:
        return False
    return all_ok or ("is invalid" in out.getvalue())


def paths_main(a: int, b: int, c: int, values: bool, nofile: bool, two: bool, exc: bool, slash: bool, ndocs: int) -> bool:
    """yaml-paths prints exactly the search results: one line per matching leaf, in document order, per document."""
    def doc(k):
        return cmap(("k", a + k), ("l", cseq(b, c)), ("t", "x"))
    stream = [doc(k) for k in range(ndocs)]
    saved = Parsers.get_yaml_multidoc_data
    Parsers.get_yaml_multidoc_data = staticmethod(lambda parser, logger, source, **kw: iter([(d, True) for d in stream]))
    argv = ["yaml-paths", "--nostdin", "--search", "=1"]
    if two:
        argv += ["--search", "=2"]
    if exc:
        argv += ["--except", "=1"] if two else ["--except", "$1"]
    if values:
        argv.append("--values")
    if nofile:
        argv.append("--nofile")
    if slash:
        argv += ["--pathsep", "/"]
    argv.append("f.yaml")
    try:
        with _argv(argv) as (out, err):
            code = _run(yp.main)
    finally:
        Parsers.get_yaml_multidoc_data = saved
    text = out.getvalue()
    want = []
    for k in range(ndocs):
        cells = [("/k" if slash else "k", a + k), ("/l[0]" if slash else "l[0]", b), ("/l[1]" if slash else "l[1]", c)]
        hits = []
        for expr, val in ((("=1", 1), ("=2", 2)) if two else (("=1", 1),)):
            for path, v in cells:
                if v == val and not (exc and v == 1):
                    hits.append((expr, path, v))
        for expr, path, v in hits:
            line = ""
            if not nofile:
                line += "f.yaml/%d" % k
            if two:
                line += "[%s]" % expr
            line += ": " if (not nofile or two) else ""
            line += path
            if values:
                line += ": " + str(v)
            want.append(line)
    note(argv=argv, documents=[{"k": a + k, "l": [b, c], "t": "x"} for k in range(ndocs)], exit_status=code, stdout=text,
         expected_lines=want)
    return code == 0 and text == "".join(w + "\n" for w in want)


def shards(tier, seed):
    out = []
    for q in range(8):
        uses_i = q == 0
        out.append(shard(PID, "get/q%d" % q, "harness.c16", "get_main(%d, %s, slash, a, b, c)" % (q, "i" if uses_i else "0"),
                         ([("i", "int")] if uses_i else []) + [("slash", "bool"), ("a", "int"), ("b", "int"), ("c", "int")],
                         (["-4 <= i <= 4"] if uses_i else []) + ["-2 <= a <= 2 and -2 <= b <= 2 and -2 <= c <= 2"],
                         family="get", budget=900,
                         desc="yaml-get main() through real argparse: query #%d, stdout lines and exit status" % q))
    out.append(shard(PID, "diff", "harness.c16", "diff_main(a, b, c, d, quiet)",
                     [("a", "int"), ("b", "int"), ("c", "int"), ("d", "int"), ("quiet", "bool")],
                     ["-1 <= a <= 1 and -1 <= b <= 1 and -1 <= c <= 1 and -1 <= d <= 1"], family="diff", budget=1800,
                     desc="yaml-diff main(): exit status 0 iff data-equal; report names exactly the changed leaves"))
    out.append(shard(PID, "diff_roots", "harness.c16", "diff_roots(k)", [("k", "int")], ["0 <= k < %d" % (len(ROOTS) ** 2)],
                     family="diff", budget=900, kind="S", desc="yaml-diff over scalar root documents (null, falsy, truthy)"))
    out.append(shard(PID, "validate", "harness.c16", "validate_main(n1, n2, bad1, bad2)",
                     [("n1", "int"), ("n2", "int"), ("bad1", "int"), ("bad2", "int")],
                     ["1 <= n1 <= 3 and 1 <= n2 <= 3", "-1 <= bad1 <= 3 and -1 <= bad2 <= 3"], family="validate", budget=900,
                     desc="yaml-validate main(): two files of 1..3 documents, at most one invalid each"))
    for two in (False, True):
        for exc in (False, True):
            out.append(shard(PID, "paths/%s%s" % ("two" if two else "one", "_except" if exc else ""), "harness.c16",
                             "paths_main(a, b, c, values, nofile, %r, %r, slash, 2)" % (two, exc),
                             [("a", "int"), ("b", "int"), ("c", "int"), ("values", "bool"), ("nofile", "bool"), ("slash", "bool")],
                             ["0 <= a <= 1 and 1 <= b <= 2 and 1 <= c <= 2"], family="paths", budget=1800,
                             desc="yaml-paths main() through real argparse over a 2-document stream: %s --search expression(s)%s, "
                                  "--values, --nofile, --pathsep: stdout lines and exit status vs model"
                                  % ("two" if two else "one", " and --except" if exc else "")))
    return out
