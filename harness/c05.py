"""C05 - merging two documents yields the policy-defined result for every option mix."""
from types import SimpleNamespace

from crosshair import realize
from ruamel.yaml.comments import CommentedMap, CommentedSeq, CommentedSet

from yamlpath.merger import Merger, MergerConfig
from yamlpath.merger.exceptions import MergeException

from vf.common import LOG, cmap, cseq, cset
from vf.model_merge import judge, ERR
from vf.shard import shard, note

PID = "C05"
FILES = ["yamlpath/merger/merger.py", "yamlpath/merger/mergerconfig.py", "yamlpath/common/nodes.py",
         "yamlpath/common/anchors.py", "yamlpath/processor.py"]
FUNCTIONS = ["Merger.merge_with", "Merger._merge_dicts/_merge_lists/_merge_simple_lists/_merge_arrays_of_hashes/_merge_sets",
             "Merger._insert_dict/_insert_list/_insert_set/_insert_scalar", "Merger._resolve_anchor_conflicts (no anchors here)",
             "MergerConfig.hash_merge_mode/array_merge_mode/aoh_merge_mode/set_merge_mode/aoh_merge_key/prepare",
             "Nodes.tagless_elements/tagless_value/append_list_element"]
STUBS = ["logger: real ConsolePrinter(quiet)", "policies are given through an args object whose attributes are read lazily "
         "(the solver forks on a policy only where MergerConfig consults it)"]
OUTSIDE = ["where new right-hand keys are inserted among left-hand keys (only relative orders are asserted)",
           "a value repeated within the right-hand array under 'unique' (once or as often: both accepted)",
           "several right-hand records folding into one left-hand record under aoh=deep; an empty right-hand array",
           "array/set into a root set or hash (element-wise conversions: only 'no crash' is asserted)",
           "per-path rules/keys overrides are exercised in 3 shards only; tags, comments, anchors (C10)"]
ASSUMPTIONS = ["judge vf/model_merge.py transcribes the documented policies; documented-compatible alternatives are accepted"]

HASHES = ["deep", "left", "right"]
ARRAYS = ["all", "left", "right", "unique"]
AOH = ["all", "deep", "left", "right", "unique"]
SETS = ["left", "right", "unique"]


class LazyArgs:
    """argparse-like namespace whose policy attributes are decoded only when MergerConfig reads them."""

    def __init__(self, h, a, o, s, mergeat="/"):
        self._h, self._a, self._o, self._s = h, a, o, s
        self.mergeat = mergeat
        self.config = None
        self.anchors = "stop"

    @property
    def hashes(self):
        return HASHES[realize(self._h)]

    @property
    def arrays(self):
        return ARRAYS[realize(self._a)]

    @property
    def aoh(self):
        return AOH[realize(self._o)]

    @property
    def sets(self):
        return SETS[realize(self._s)]


class LazyPol:
    """Policies for the judge, decoded only where the judge reads them."""

    def __init__(self, h, a, o, s):
        self.sel = {"hashes": (HASHES, h), "arrays": (ARRAYS, a), "aoh": (AOH, o), "sets": (SETS, s)}
        self.read = {}

    def __getitem__(self, name):
        names, k = self.sel[name]
        v = names[realize(k)]
        self.read[name] = v
        return v


def to_plain(node):
    if isinstance(node, (CommentedSet, set, frozenset)):
        return set(node)
    if isinstance(node, dict):
        return {k: to_plain(v) for k, v in node.items()}
    if isinstance(node, list):
        return [to_plain(v) for v in node]
    return node


# name -> (builder(a, b, c, d) -> (lhs, rhs), description)
LITS = ["1.1", "1.10", 8080, "8080"]     # texts that evaluate to equal numbers / a number and its spelling


def _lit(k):
    from crosshair import realize
    return LITS[realize(k) % len(LITS)]


PAIRS = {
    "arrays_lit": (lambda a, b, c, d: (cmap(("l", cseq(_lit(a), _lit(b)))), cmap(("l", cseq(_lit(c))))),
                   "{l: [A, B]} <- {l: [C]} with A, B, C from a pool of texts spelling equal numbers differently (pool selectors)"),
    "sets_lit": (lambda a, b, c, d: (cmap(("s", cset(_lit(a)))), cmap(("s", cset(_lit(c))))),
                 "{s: !!set {A}} <- {s: !!set {C}} with A, C from the same pool"),
    "scalars": (lambda a, b, c, d: (cmap(("x", a), ("y", b)), cmap(("y", c), ("z", d))), "{x: a, y: b} <- {y: c, z: d}"),
    "nested": (lambda a, b, c, d: (cmap(("k", 0), ("h", cmap(("p", a), ("q", b))), ("t", 1)),
                                   cmap(("h", cmap(("q", c), ("r", d))), ("n", 2))), "{k, h: {p: a, q: b}, t} <- {h: {q: c, r: d}, n}"),
    "arrays": (lambda a, b, c, d: (cmap(("l", cseq(a, b))), cmap(("l", cseq(c, d)))), "{l: [a, b]} <- {l: [c, d]}"),
    "arrays3": (lambda a, b, c, d: (cmap(("l", cseq(a, b, a))), cmap(("l", cseq(c, d, c)))), "{l: [a, b, a]} <- {l: [c, d, c]}"),
    "aoh": (lambda a, b, c, d: (cmap(("w", cseq(cmap(("id", 1), ("v", a)), cmap(("id", 2), ("v", b))))),
                                cmap(("w", cseq(cmap(("id", 2), ("v", c)), cmap(("id", 3), ("v", d)))))),
            "{w: [{id: 1, v: a}, {id: 2, v: b}]} <- {w: [{id: 2, v: c}, {id: 3, v: d}]}"),
    "aoh_ids": (lambda a, b, c, d: (cmap(("w", cseq(cmap(("id", a), ("v", 1)), cmap(("id", b), ("v", 2))))),
                                    cmap(("w", cseq(cmap(("id", c), ("v", 3)))))),
                "{w: [{id: a, v: 1}, {id: b, v: 2}]} <- {w: [{id: c, v: 3}]} (symbolic identity keys)"),
    "aoh_strids": (lambda a, b, c, d: (cmap(("w", cseq(cmap(("id", "2"), ("v", a)), cmap(("id", "true"), ("v", b)), cmap(("id", "1.5"), ("v", 0))))),
                                       cmap(("w", cseq(cmap(("id", "true"), ("v", c)), cmap(("id", "2"), ("v", d)), cmap(("id", "1.5"), ("x", 1)))))),
                   "AoH whose identity values are strings spelling a number / boolean"),
    "aoh_noid": (lambda a, b, c, d: (cmap(("w", cseq(cmap(("id", 1), ("v", a))))),
                                     cmap(("w", cseq(cmap(("id", 1), ("v", c)), cmap(("v", d)))))),
                 "right record lacks the identity key"),
    "clash_list_over_scalar": (lambda a, b, c, d: (cmap(("a", a)), cmap(("a", cseq(c)))), "{a: 1} <- {a: [c]}"),
    "clash_emptylist_over_scalar": (lambda a, b, c, d: (cmap(("a", a)), cmap(("a", cseq()))), "{a: 1} <- {a: []}"),
    "clash_map_over_list": (lambda a, b, c, d: (cmap(("a", cseq(a))), cmap(("a", cmap(("p", c))))), "{a: [a]} <- {a: {p: c}}"),
    "clash_scalar_over_map": (lambda a, b, c, d: (cmap(("a", cmap(("p", a)))), cmap(("a", c))), "{a: {p: a}} <- {a: c}"),
    "clash_scalar_over_list": (lambda a, b, c, d: (cmap(("a", cseq(a, b))), cmap(("a", c))), "{a: [a, b]} <- {a: c}"),
    "clash_map_over_scalar": (lambda a, b, c, d: (cmap(("a", a)), cmap(("a", cmap(("p", c))))), "{a: 1} <- {a: {p: c}}"),
    "clash_list_over_map": (lambda a, b, c, d: (cmap(("a", cmap(("p", a)))), cmap(("a", cseq(c)))), "{a: {p: a}} <- {a: [c]}"),
    "empties": (lambda a, b, c, d: (cmap(("l", cseq()), ("h", cmap()), ("m", cseq(a))),
                                    cmap(("l", cseq(c)), ("h", cmap(("p", d))), ("m", cseq()))), "empty containers on either side"),
    "root_lists": (lambda a, b, c, d: (cseq(a, b), cseq(c, d)), "[a, b] <- [c, d]"),
    "root_list_scalar": (lambda a, b, c, d: (cseq(a, b), c), "[a, b] <- scalar"),
    "root_map_scalar": (lambda a, b, c, d: (cmap(("x", a)), c), "{x: a} <- scalar (refused)"),
    "root_map_list": (lambda a, b, c, d: (cmap(("x", a)), cseq(c)), "{x: a} <- [c] (refused)"),
    "root_aoh": (lambda a, b, c, d: (cseq(cmap(("id", 1), ("v", a)), cmap(("id", 2), ("v", b))),
                                     cseq(cmap(("id", 2), ("v", c)), cmap(("id", 3), ("v", d)))),
                 "[{id: 1, v: a}, {id: 2, v: b}] <- [{id: 2, v: c}, {id: 3, v: d}]"),
    "root_list_map": (lambda a, b, c, d: (cseq(cmap(("id", a))), cmap(("id", c))), "[{id: a}] <- {id: c}"),
    "sets": (lambda a, b, c, d: (cmap(("s", cset("a", "b"))), cmap(("s", cset("b", "c")))), "{s: !!set {a, b}} <- {s: !!set {b, c}}"),
    "set_clash": (lambda a, b, c, d: (cmap(("s", cset("a"))), cmap(("s", cmap(("p", c))))), "hash into set (refused)"),
    "twin_sub": (lambda a, b, c, d: (cmap(("h", cmap(("p", a), ("l", cseq(b)))), ("z", 0)),
                                     cmap(("h", cmap(("p", c), ("l", cseq(d)))), ("z", 0))),
                 "{h: {p: a, l: [b]}, z} <- {h: {p: c, l: [d]}, z} (the nested hashes are equal when a == c and b == d)"),
    "twin_aoh": (lambda a, b, c, d: (cmap(("h", cmap(("w", cseq(cmap(("id", a), ("v", b))))))),
                                     cmap(("h", cmap(("w", cseq(cmap(("id", c), ("v", d)))))))),
                 "{h: {w: [{id: a, v: b}]}} <- {h: {w: [{id: c, v: d}]}} (equal nested hash holding an Array-of-Hashes)"),
    "deep3": (lambda a, b, c, d: (cmap(("h", cmap(("g", cmap(("p", a), ("l", cseq(b)))))), ("z", 0)),
                                  cmap(("h", cmap(("g", cmap(("l", cseq(c)), ("q", d))))))), "three levels with an array at the bottom"),
}


def merge_ok(pair: str, h: int, ar: int, ao: int, st: int, a: int, b: int, c: int, d: int) -> bool:
    """merge_with(rhs) gives a document the judge accepts, or a MergeException where a merge is impossible."""
    lhs, rhs = PAIRS[pair][0](a, b, c, d)
    pl, pr = to_plain(lhs), to_plain(rhs)
    args = LazyArgs(h, ar, ao, st)
    note(pair=PAIRS[pair][1], leaves=[a, b, c, d], lhs=pl, rhs=pr)
    merger = Merger(LOG, lhs, MergerConfig(LOG, args))
    try:
        merger.merge_with(rhs)
        got = to_plain(merger.data)
    except MergeException:
        got = ERR
    pol = LazyPol(h, ar, ao, st)
    ok = judge(pl, pr, got, pol, True)
    note(policies_consulted=pol.read, merged=got)
    return ok


def merge_sequence(kind: int, ar: int, a: int, b: int, c: int, d: int) -> bool:
    """Two merge_with() calls on ONE Merger equal the fold of two single merges (root arrays / root hashes)."""
    kind, ar = realize(kind), realize(ar)
    args = SimpleNamespace(arrays=ARRAYS[ar], config=None, mergeat="/")
    if kind == 0:
        l0, r1, r2 = cseq(a, b, 3), cseq(b, c), cseq(d)
    elif kind == 1:
        l0, r1, r2 = cmap(("l", cseq(a, b))), cmap(("l", cseq(b, c)), ("x", 1)), cmap(("l", cseq(d)), ("y", 2))
    else:
        l0, r1, r2 = cseq(a), cseq(), cseq(a, d)
    pl, p1, p2 = to_plain(l0), to_plain(r1), to_plain(r2)
    merger = Merger(LOG, l0, MergerConfig(LOG, args))
    merger.merge_with(r1)
    mid = to_plain(merger.data)
    pol = {"hashes": "deep", "arrays": ARRAYS[ar], "aoh": "all", "sets": "unique"}
    note(left=pl, first=p1, second=p2, arrays=ARRAYS[ar], after_first=mid)
    if not judge(pl, p1, mid, pol, True):
        return False
    mid_copy = to_plain(merger.data)
    merger.merge_with(r2)
    got = to_plain(merger.data)
    note(after_second=got)
    return judge(mid_copy, p2, got, pol, True)


def merge_rules(which: int, a: int, b: int, c: int, d: int) -> bool:
    """Per-path rules/keys overrides take precedence over the defaults."""
    which = realize(which)
    if which == 0:      # rule: /l = left while arrays default = all
        lhs, rhs = cmap(("l", cseq(a, b)), ("m", cseq(a))), cmap(("l", cseq(c)), ("m", cseq(d)))
        cfg = MergerConfig(LOG, SimpleNamespace(arrays="all", config=None, mergeat="/"), rules={"/l": "left"})
        want = {"l": [a, b], "m": [a, d]}
    elif which == 1:    # rule: /h = right while hashes default = deep
        lhs, rhs = cmap(("h", cmap(("p", a))), ("g", cmap(("p", b)))), cmap(("h", cmap(("q", c))), ("g", cmap(("q", d))))
        cfg = MergerConfig(LOG, SimpleNamespace(hashes="deep", config=None, mergeat="/"), rules={"/h": "right"})
        want = {"h": {"q": c}, "g": {"p": b, "q": d}}
    else:               # key: /w = name for aoh deep
        lhs = cmap(("w", cseq(cmap(("id", 1), ("name", "x"), ("v", a)), cmap(("id", 2), ("name", "y"), ("v", b)))))
        rhs = cmap(("w", cseq(cmap(("id", 9), ("name", "y"), ("v", c)))))
        cfg = MergerConfig(LOG, SimpleNamespace(aoh="deep", config=None, mergeat="/"), keys={"/w": "name"})
        want = {"w": [{"id": 1, "name": "x", "v": a}, {"id": 9, "name": "y", "v": c}]}
    merger = Merger(LOG, lhs, cfg)
    merger.merge_with(rhs)
    got = to_plain(merger.data)
    note(which=which, merged=got, expected=want)
    return got == want


def _mk(pair, fixed=None):
    leaves = [("a", "int"), ("b", "int"), ("c", "int"), ("d", "int")]
    pre_leaves = "-9 <= a <= 9 and -9 <= b <= 9 and -9 <= c <= 9 and -9 <= d <= 9"
    if pair in ("arrays", "arrays3"):
        out = []
        for ar, name in enumerate(ARRAYS):      # one query per array policy (the unique judge forks a lot)
            out.append(shard(PID, "merge/%s/%s" % (pair, name), "harness.c05",
                             "merge_ok(%r, h, %d, ao, st, a, b, c, d)" % (pair, ar),
                             [("h", "int"), ("ao", "int"), ("st", "int")] + leaves,
                             ["0 <= h < 3 and 0 <= ao < 5 and 0 <= st < 3", pre_leaves],
                             family="merge/%s" % pair, budget=1200, desc=PAIRS[pair][1] + "  arrays=" + name,
                             bounds={"policies": "3x5x3 selectors, read lazily; arrays=" + name, "a,b,c,d": "[-9,9]"}))
        return out
    if pair in ("arrays_lit", "sets_lit"):
        return [shard(PID, "merge/%s" % pair, "harness.c05", "merge_ok(%r, 0, ar, 0, st, a, b, c, 0)" % pair,
                      [("ar", "int"), ("st", "int"), ("a", "int"), ("b", "int"), ("c", "int")],
                      ["ar == 3" if pair == "arrays_lit" else "ar == 0", "0 <= st < 3" if pair == "sets_lit" else "st == 0",
                       "0 <= a < 4 and 0 <= c < 4", "b == 3 - a" if pair == "arrays_lit" else "b == 0"],
                      family="merge/%s" % pair, budget=1200, kind="S", desc=PAIRS[pair][1],
                      bounds={"a,b,c": "selectors into a pool of 4 (b = 3 - a)", "policies": "arrays=unique / the three set policies"})]
    params = [("h", "int"), ("ar", "int"), ("ao", "int"), ("st", "int")] + leaves
    pre = ["0 <= h < 3 and 0 <= ar < 4 and 0 <= ao < 5 and 0 <= st < 3", pre_leaves]
    return [shard(PID, "merge/%s" % pair, "harness.c05", "merge_ok(%r, h, ar, ao, st, a, b, c, d)" % pair, params, pre,
                  family="merge/%s" % pair, budget=1200, desc=PAIRS[pair][1],
                  bounds={"policies": "3x4x5x3 selectors, read lazily", "a,b,c,d": "[-9,9]"})]


QUICK = ["scalars", "nested", "arrays", "aoh", "aoh_strids", "clash_list_over_scalar", "clash_emptylist_over_scalar", "clash_scalar_over_map",
         "clash_map_over_list", "root_lists", "root_map_scalar", "sets", "empties", "root_list_map", "root_aoh", "twin_sub", "twin_aoh",
         "arrays_lit", "sets_lit"]


def shards(tier, seed):
    names = QUICK if tier == "quick" else list(PAIRS)
    out = [x for n in names for x in _mk(n)]
    out.append(shard(PID, "sequence", "harness.c05", "merge_sequence(kind, ar, a, b, c, d)",
                     [("kind", "int"), ("ar", "int"), ("a", "int"), ("b", "int"), ("c", "int"), ("d", "int")],
                     ["0 <= kind <= 2 and 0 <= ar < 4", "-2 <= a <= 2 and -2 <= b <= 2 and -2 <= c <= 2 and -2 <= d <= 2"],
                     family="sequence", budget=1200, desc="two merges into one Merger (root arrays incl. unique, hashes with arrays)"))
    out.append(shard(PID, "rules", "harness.c05", "merge_rules(which, a, b, c, d)",
                     [("which", "int"), ("a", "int"), ("b", "int"), ("c", "int"), ("d", "int")],
                     ["0 <= which <= 2", "-9 <= a <= 9 and -9 <= b <= 9 and -9 <= c <= 9 and -9 <= d <= 9"], family="rules",
                     budget=900, desc="per-path rule / key overrides beat the defaults"))
    return out
