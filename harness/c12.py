"""C12 - search operators compare values by the documented typed rules."""
from crosshair import realize

from yamlpath import Processor
from yamlpath.common import Searches, Nodes
from yamlpath.enums import PathSearchMethods
from yamlpath.exceptions import YAMLPathException

from vf import docs, prelude
from vf.common import LOG
from vf.shard import shard, note

PID = "C12"
FILES = ["yamlpath/common/searches.py", "yamlpath/common/nodes.py", "yamlpath/processor.py"]
FUNCTIONS = ["Searches.search_matches", "Nodes.typed_value", "Processor._get_nodes_by_search (inversion sites)",
             "YAMLPath parser (search segments given as text)"]
STUBS = ["ast.literal_eval on letters-only symbolic strings answered by a model (True/False/None else ValueError) "
         "validated exhaustively against the real function at the start of every run"]
OUTSIDE = ["symbolic regular expressions and symbolic floats (engine limits): regex/contains use finite pools",
           "haystacks that spell a boolean/None ('true', 'False', 'None', any case) under prefix/suffix/contains/ordering "
           "operators, bool terms under ordering operators, int haystack vs bool term equality: the documentation does "
           "not settle whether the typed or the written text is meant; these only take part in the never-raises claim",
           "terms outside the stated pools; strings longer than 3 letters; integers outside [-99, 99]"]
ASSUMPTIONS = ["reference model spec_* transcribes the property statement (README search rules), not the implementation"]

M = PathSearchMethods
OPS = {"eq": M.EQUALS, "sw": M.STARTS_WITH, "ew": M.ENDS_WITH, "has": M.CONTAINS, "gt": M.GREATER_THAN,
       "lt": M.LESS_THAN, "ge": M.GREATER_THAN_OR_EQUAL, "le": M.LESS_THAN_OR_EQUAL, "re": M.REGEX}
OPTEXT = {"eq": "=", "sw": "^", "ew": "$", "has": "%", "gt": ">", "lt": "<", "ge": ">=", "le": "<="}

# term pool for numeric haystacks: (text, documented kind, numeric value)
NUM_TERMS = [("5", "int", 5), ("-3", "int", -3), ("0", "int", 0), ("12", "int", 12), ("-99", "int", -99),
             ("5.0", "float", 5.0), ("5.5", "float", 5.5), ("-0.5", "float", -0.5), ("1e1", "float", 10.0),
             ("abc", "text", None), ("5x", "text", None), ("", "text", None), ("1", "int", 1), ("99", "int", 99),
             ("true", "bool", True), ("False", "bool", False), ("TRUE", "bool", True)]
# terms whose typing the documentation does not settle: never-raises only
LOOSE_TERMS = [" 5", "05", "None", "true", "False", "TRUE", "0x10", "1_0", "+5", "5.", ".5", "nan", "inf", "1,2",
               "[1]", "{}", "''", "\"5\"", "5 ", "- 3", "2020-01-01", "(", "a b"]
TEXT_TERMS = ["a", "ab", "abc", "b", "B", "Ab", "zz", "m", "", "abcd"]


def spec_int(op, tkind, tval, ttext, h):
    """Documented answer for an integer value h against a term of the given kind."""
    if op == "eq":
        if tkind == "int":
            return h == tval
        return str(h) == ttext           # int vs float term / text term: not the same kind -> textual
    if op == "sw":
        return str(h).startswith(ttext)
    if op == "ew":
        return str(h).endswith(ttext)
    if op == "has":
        return ttext in str(h)
    if tkind == "text":
        return False                     # ordering of a numeric value against a non-numeric term
    if tkind == "bool":
        return None                      # ordering against a boolean spelling: not documented, not asserted
    if op == "gt":
        return h > tval
    if op == "lt":
        return h < tval
    if op == "ge":
        return h >= tval
    return h <= tval


def int_ladder(op: str, k: int, h: int) -> bool:
    """search_matches(op, NUM_TERMS[k], h) equals the documented answer, for every integer h."""
    k = realize(k)
    ttext, tkind, tval = NUM_TERMS[k]
    note(operator=op, term=ttext, value=h)
    got = Searches.search_matches(OPS[op], ttext, h)
    want = spec_int(op, tkind, tval, ttext, h)
    note(observed=got, expected=want)
    return want is None or got == want


FLOAT_H = [5.0, 5.5, -0.5, 2.5, 4.0, 0.0, -3.0, 10.0, 1e10]
FLOAT_T = [("5", "int", 5), ("5.0", "float", 5.0), ("5.5", "float", 5.5), ("2.5", "float", 2.5), ("4", "int", 4),
           ("4.0", "float", 4.0), ("0", "int", 0), ("0.0", "float", 0.0), ("-0.5", "float", -0.5), ("-3", "int", -3),
           ("1e1", "float", 10.0), ("10", "int", 10), ("abc", "text", None), ("6", "int", 6), ("-1", "int", -1)]


def spec_float(op, tkind, tval, ttext, h):
    """Documented answer for a float value h: numeric equality only against a float term (same kind), ordering
    numeric against any numeric term and false against text, affix tests on the value's text."""
    if op == "eq":
        if tkind == "float":
            return h == tval
        return str(h) == ttext
    if op == "sw":
        return str(h).startswith(ttext)
    if op == "ew":
        return str(h).endswith(ttext)
    if op == "has":
        return ttext in str(h)
    if tkind == "text":
        return False
    if op == "gt":
        return h > tval
    if op == "lt":
        return h < tval
    if op == "ge":
        return h >= tval
    return h <= tval


def float_ladder(op: str, hk: int, tk: int) -> bool:
    """Float values (native, and spelled as text) against numeric/text terms: finite pool grid through the solver."""
    tk = realize(tk)
    h = FLOAT_H[hk]
    ttext, tkind, tval = FLOAT_T[tk]
    want = spec_float(op, tkind, tval, ttext, h)
    got = Searches.search_matches(OPS[op], ttext, h)
    note(operator=op, term=ttext, value=h, observed=got, expected=want)
    if got != want:
        return False
    # the same float written as text (what a quoted scalar holds) under the ordering operators
    if op in ("gt", "lt", "ge", "le") and tkind != "text":
        got2 = Searches.search_matches(OPS[op], ttext, repr(h))
        note(value_as_text=repr(h), observed_text=got2)
        return got2 == want
    return True


SEQ = [("eq", "true", True, True), ("eq", "1.0", 1.0, True), ("eq", "1", 1, True), ("eq", "1.0", 1, False),
       ("eq", "1", 1.0, False), ("eq", "false", False, True), ("eq", "0.0", 0.0, True), ("eq", "0", 0, True),
       ("ew", ".0", 1.0, True), ("sw", "T", True, True), ("sw", "T", 1.0, False), ("eq", "2", 2, True),
       ("eq", "2.0", 2.0, True), ("eq", "2", 2.0, False), ("ge", "2", 2.0, True), ("has", ".", 2.0, True),
       ("has", ".", 2, False)]


def sequence(k: int) -> bool:
    """Any two comparisons made one after the other answer as they would alone (no carried-over state)."""
    from crosshair import NoTracing
    k = realize(k)
    i1, i2 = k % len(SEQ), k // len(SEQ)
    # executed untraced: the engine replaces some library functions (e.g. functools caches) by models, and carried-over
    # state is exactly what this query is about; every value here is concrete once k is realised
    with NoTracing():
        for idx in (i1, i2, i1):
            op, term, val, want = SEQ[idx]
            got = Searches.search_matches(OPS[op], term, val)
            if got != want:
                note(first=SEQ[i1][:3], second=SEQ[i2][:3], failing=SEQ[idx][:3], observed=got, expected=want)
                return False
    return True


def is_boolish(s):
    low = s.lower()
    return low == "true" or low == "false" or s == "None"


def spec_text(op, ttext, h):
    if op == "eq":
        return h == ttext
    if op == "sw":
        return h.startswith(ttext)
    if op == "ew":
        return h.endswith(ttext)
    if op == "gt":
        return h > ttext
    if op == "lt":
        return h < ttext
    if op == "ge":
        return h >= ttext
    return h <= ttext


def letters(s):
    for c in s:
        if not (("a" <= c <= "z") or ("A" <= c <= "Z")):
            return False
    return True


def lows(s):
    for c in s:
        if not ("a" <= c <= "z"):
            return False
    return True


def text_ladder(op: str, term: str, h: str) -> bool:
    """Text value (letters only) against a concrete text term."""
    note(operator=op, term=term, value=h)
    got = Searches.search_matches(OPS[op], term, h)
    if is_boolish(h):
        return True            # outside the claim (see OUTSIDE); reaching here shows it did not raise
    want = spec_text(op, term, h)
    note(observed=got, expected=want)
    return got == want


def bool_eq(hs: int, ts: int, quoted: bool) -> bool:
    """Booleans match their case-insensitive spellings (native bool or its spelling as text)."""
    spell = ["true", "True", "TRUE", "false", "False", "FALSE", "tRuE", "yes", "0", "1", "t"]
    hs = realize(hs)
    ts = realize(ts)
    hvals = [True, False, "true", "True", "TRUE", "false", "False", "FALSE"]
    h = hvals[hs]
    t = spell[ts]
    got = Searches.search_matches(M.EQUALS, t, h)
    note(value=h, term=t, observed=got)
    hb = h if isinstance(h, bool) else (h.lower() == "true")
    if t.lower() in ("true", "false"):
        return got == (hb == (t.lower() == "true"))
    if t in ("0", "1"):
        return True            # bool-is-int trap: undocumented, never-raises only
    return got is False or got == (str(h) == t)


POOL_H = [None, True, False, 0, 1, -1, 5, 12, 5.0, 5.5, -0.5, 1e10, "5", "5.0", "05", "abc", "ABC", "", " ", "a b",
          "true", "False", "None", "null", "~", "2020-01-01", "1e1", "0x10", "1_0", "a.b", "(", "[x]", "x'y", "\\d",
          "üñí", "line\nbreak", "nan", "-", "+5", "5 "]
POOL_RE = [("^a", "abc", True), ("^b", "abc", False), ("b", "abc", True), ("c$", "abc", True), ("^abc$", "abc", True),
           ("^ab$", "abc", False), ("\\d+", "x12", True), ("^\\d+$", "x12", False), ("^\\d+$", 12, True),
           ("5", 5.5, True), ("^5$", 5, True), ("^$", "", True), ("B", "abc", False), ("(?i)B", "abc", True),
           ("a|z", "xyz", True), ("^.$", "ab", False), ("rue", True, True), ("^-", -3, True)]
POOL_HAS = [("b", "abc", True), ("ac", "abc", False), ("", "abc", True), ("abc", "abc", True), ("abcd", "abc", False),
            ("2", 123, True), ("4", 123, False), (".", 5.5, True), ("5", 5.5, True), (" ", "a b", True), ("B", "abc", False)]


def regex_pool(k: int) -> bool:
    """A regular expression is searched (not anchored) in the value's text - finite pool."""
    k = realize(k)
    pat, h, want = POOL_RE[k]
    got = Searches.search_matches(M.REGEX, pat, h)
    note(pattern=pat, value=h, observed=got, expected=want)
    return got == want


def contains_pool(k: int) -> bool:
    k = realize(k)
    t, h, want = POOL_HAS[k]
    got = Searches.search_matches(M.CONTAINS, t, h)
    note(term=t, value=h, observed=got, expected=want)
    return got == want


ALL_TERMS = [t for t, _, _ in NUM_TERMS] + LOOSE_TERMS + TEXT_TERMS


def _compiles(t):
    import re
    try:
        re.compile(t)
        return True
    except re.error:
        return False


RE_TERMS = [t for t in ALL_TERMS if t and _compiles(t)]     # well-formed patterns only (invalid ones: C15)


def never_raises(op: str, hk: int, tk: int) -> bool:
    """No operator raises for any (value, well-formed term) of the pools."""
    tk = realize(tk)
    h = POOL_H[hk]
    t = (RE_TERMS if op == "re" else ALL_TERMS)[tk]
    note(operator=op, value=h, term=t)
    r = Searches.search_matches(OPS[op], t, h)
    return r is True or r is False


def _positions(proc, path, container):
    out = []
    for nc in proc.get_nodes(path, mustexist=True):
        if nc.parent is not container:
            return None
        out.append(nc.parentref)
    return out


def inversion(shape: str, op: str, term: str, a: int, b: int, c: int) -> bool:
    """An inverted search yields exactly the candidates the plain search does not, in document order."""
    doc = docs.build(shape, a, b, c)
    proc = Processor(LOG, doc)
    if shape == "L3":
        cont, attr, cands, prefix = doc, ".", [0, 1, 2], ""
    elif shape == "ML3":
        cont, attr, cands, prefix = doc["l"], ".", [0, 1, 2], "l"
    elif shape == "AOH3":
        cont, attr, cands, prefix = doc["w"], "p", [0, 1, 2], "w"
    else:
        raise AssertionError(shape)
    plain_p = prefix + "[" + attr + OPTEXT[op] + term + "]"
    inv_p = prefix + "[" + attr + "!" + OPTEXT[op] + term + "]"
    note(document=docs.describe(shape), leaves=[a, b, c], plain=plain_p, inverted=inv_p)
    try:
        plain = _positions(proc, plain_p, cont)
    except YAMLPathException:
        plain = []
    try:
        inv = _positions(proc, inv_p, cont)
    except YAMLPathException:
        inv = []
    note(plain_result=plain, inverted_result=inv)
    if plain is None or inv is None:
        return False
    if sorted(plain) != plain or sorted(inv) != inv:
        return False
    return sorted(plain + inv) == cands


def _validate_le():
    return prelude.validate_literal_eval_model(3)


VALIDATIONS = [("literal_eval model on all letters-only strings up to length 3", _validate_le)]


def shards(tier, seed):
    out = []
    nt = len(NUM_TERMS)
    ops_num = ["eq", "sw", "ew", "has", "gt", "lt", "ge", "le"]
    for op in ops_num:
        out.append(shard(PID, "int/%s" % op, "harness.c12", "int_ladder(%r, k, h)" % op, [("k", "int"), ("h", "int")],
                         ["0 <= k < %d" % nt, "-99 <= h <= 99"], family="int", budget=400,
                         desc="integer value h %s term (pool of %d spellings)" % (OPTEXT[op], nt),
                         bounds={"h": "[-99,99] value-symbolic", "k": "selector over NUM_TERMS"}))
    fhs = range(len(FLOAT_H)) if tier == "thorough" else [1, 3, 4, 5]
    for op in ops_num if tier == "thorough" else ["eq", "gt", "lt", "ge", "le"]:
        for hk in fhs:
            out.append(shard(PID, "float/%s/h%d" % (op, hk), "harness.c12", "float_ladder(%r, %d, tk)" % (op, hk),
                             [("tk", "int")], ["0 <= tk < %d" % len(FLOAT_T)], family="float", budget=300, kind="S",
                             desc="float value %r %s every pooled term incl. ties (selector)" % (FLOAT_H[hk], OPTEXT[op])))
    nseq = len(SEQ) * len(SEQ)
    for lo in range(0, nseq, 100):
        out.append(shard(PID, "sequence/k%03d" % lo, "harness.c12", "sequence(k)", [("k", "int")],
                         ["%d <= k < %d" % (lo, min(nseq, lo + 100))], family="sequence", budget=600, kind="S",
                         desc="ordered pairs of comparisons over bool / int / float values that are equal as numbers"))
    text_ops = ["eq", "sw", "ew", "gt", "lt", "ge", "le"]
    terms = TEXT_TERMS if tier == "thorough" else ["ab", "B"]
    qops = text_ops if tier == "thorough" else ["eq", "sw", "gt", "le"]
    # str.lower()/title() inside typed_value are modelled over the whole Unicode table (z3-heavy): the
    # symbolic text value stays short
    variants = [("low2", "len(h) <= 2 and lows(h)", "str over [a-z], len<=2", 600)]
    if tier == "thorough":
        variants = [("low3", "len(h) <= 3 and lows(h)", "str over [a-z], len<=3", 1800),
                    ("mix2", "len(h) <= 2 and letters(h)", "str over [A-Za-z], len<=2", 1800)]
    for op in qops:
        for t in terms:
            for vname, vpre, vdesc, vbudget in variants:
                out.append(shard(PID, "text/%s/%s/%s" % (op, t or "empty", vname), "harness.c12",
                                 "text_ladder(%r, %r, h)" % (op, t), [("h", "str")], [vpre], family="text",
                                 budget=vbudget, desc="text value %s %r" % (OPTEXT[op], t),
                                 bounds={"h": vdesc + ", value-symbolic", "term": "concrete"}))
    out.append(shard(PID, "bool/eq", "harness.c12", "bool_eq(hs, ts, False)", [("hs", "int"), ("ts", "int")],
                     ["0 <= hs < 8", "0 <= ts < 11"], family="bool", budget=300,
                     desc="boolean spellings, finite grid (selectors)", kind="S"))
    out.append(shard(PID, "regex/pool", "harness.c12", "regex_pool(k)", [("k", "int")], ["0 <= k < %d" % len(POOL_RE)],
                     family="regex", budget=300, desc="regex search on a finite pool (selectors)", kind="S"))
    out.append(shard(PID, "contains/pool", "harness.c12", "contains_pool(k)", [("k", "int")],
                     ["0 <= k < %d" % len(POOL_HAS)], family="contains", budget=300,
                     desc="substring test on a finite pool (selectors)", kind="S"))
    hks = range(len(POOL_H)) if tier == "thorough" else [0, 1, 3, 8, 12, 15, 20, 25]
    for op in (ops_num + ["re"]) if tier == "thorough" else ["eq", "gt", "has", "re"]:
        nterms = len(RE_TERMS if op == "re" else ALL_TERMS)
        for hk in hks:
            out.append(shard(PID, "noraise/%s/h%02d" % (op, hk), "harness.c12", "never_raises(%r, %d, tk)" % (op, hk),
                             [("tk", "int")], ["0 <= tk < %d" % nterms], family="noraise", budget=300,
                             desc="value %r %s every pooled term never raises (selector)" % (POOL_H[hk], op), kind="S"))
    inv_cases = [("L3", "gt", "3"), ("AOH3", "le", "0"), ("ML3", "eq", "2")]
    if tier == "thorough":
        inv_cases = [(s, o, t) for s in ("L3", "ML3", "AOH3") for o, t in
                     (("eq", "2"), ("gt", "3"), ("lt", "-1"), ("ge", "0"), ("le", "0"), ("sw", "1"), ("ew", "5"),
                      ("has", "1"), ("eq", "x"), ("gt", "x"))]
    for s, o, t in inv_cases:
        out.append(shard(PID, "inv/%s/%s_%s" % (s, o, t), "harness.c12", "inversion(%r, %r, %r, a, b, c)" % (s, o, t),
                         [("a", "int"), ("b", "int"), ("c", "int")],
                         ["-9 <= a <= 9 and -9 <= b <= 9 and -9 <= c <= 9"], family="inv", budget=600,
                         desc="%s: [. %s %s] vs inverted" % (docs.describe(s), OPTEXT[o], t),
                         bounds={"a,b,c": "[-9,9]"}))
    return out
