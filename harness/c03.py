"""C03 - a set changes exactly the matched nodes (and their aliases), nothing else."""
from crosshair import realize, deep_realize, NoTracing
from ruamel.yaml.scalarstring import PlainScalarString

from yamlpath import Processor
from yamlpath.exceptions import YAMLPathException

from vf import docs
from vf.common import LOG, cmap, cseq
from vf.model_query import ref_eval, Undefined
from vf.shard import shard, note
from harness.qcommon import K, B, mkpath
from harness import c01
from harness.c04 import _plain, _locate, _child

PID = "C03"
FILES = ["yamlpath/processor.py", "yamlpath/common/nodes.py", "yamlpath/common/anchors.py", "yamlpath/common/parsers.py"]
FUNCTIONS = ["Processor.set_value", "Processor._apply_change", "Processor._update_node (recurse)", "Nodes.make_new_node",
             "Nodes.wrap_type", "Nodes.typed_value", "Processor._get_required_nodes/_get_optional_nodes",
             "Processor.delete_nodes (as a step of edit histories)", "Parsers.get_yaml_editor/get_yaml_data (dump -> strict reload, "
             "executed concretely on the realised result of every explored path)"]
STUBS = ["logger: real ConsolePrinter(quiet)", "dump/reload runs untraced on the realised document (ruamel's emitter and "
         "scanner are outside symbolic reach)"]
OUTSIDE = ["object identity of interned scalars cannot be symbolic: shards 'pool/*' draw leaves from a pool of real objects "
           "by selector (solver-enumerated finite space); 'frame/*' shards have distinct symbolic leaves",
           "new values outside [-1,1] / the typed pool; value formats other than DEFAULT; tags; key renames via [name()]",
           "edit histories longer than 2 steps (quick) / 3 steps (thorough)"]
ASSUMPTIONS = ["matched positions come from the C01 reference model; oracle = plain-data model 'replace matched positions'"]


def model_set(doc, coords, value):
    pl = _plain(doc)
    for (parent, ref, _n) in coords:
        trail = _locate(doc, parent, ())
        if trail is None:
            return None
        cur = pl
        for r in trail:
            cur = _child(cur, r)
        if cur[0] == "map":
            for kv in cur[1]:
                if kv[0] == ref:
                    kv[1] = value
        else:
            cur[1][ref % len(cur[1])] = value
    return pl


def _reload_same(doc):
    """Dump with yamlpath's editor and reload with its strict loader: same data (concrete, untraced)."""
    import io
    from yamlpath.common import Parsers
    with NoTracing():
        real = deep_realize(doc)
        yaml = Parsers.get_yaml_editor()
        buf = io.StringIO()
        yaml.dump(real, buf)
        text = buf.getvalue()
        yaml2 = Parsers.get_yaml_editor()
        (back, ok) = Parsers.get_yaml_data(yaml2, LOG, text, literal=True)
        if not ok:
            return False
        return _plain(back) == _plain(real)


def set_frame(shape: str, template: str, i: int, j: int, v: int, a: int, b: int, c: int) -> bool:
    """set_value(path, v): matched positions hold v, everything else (values, order, keys) is as before; reloads."""
    pieces_fn, segs_fn = c01.TEMPLATES[template][0], c01.TEMPLATES[template][1]
    doc = docs.build(shape, a, b, c)
    foc = docs.focus(shape)
    segs = [("key", part) for part in foc.split(".") if part] + segs_fn(i, j)
    path = mkpath(foc, pieces_fn(i, j), False)
    note(document=docs.describe(shape), leaves=[a, b, c], path=path, value=v)
    try:
        want = ref_eval(doc, segs)
    except Undefined:
        return True
    if not want or any(p is None for (p, _r, _n) in want):
        return True
    for (_p, _r, n) in want:
        if isinstance(n, (dict, list)):
            return True          # only scalar targets are in the claim
    expected = model_set(doc, want, v)
    proc = Processor(LOG, doc)
    try:
        proc.set_value(path, v, mustexist=True)
    except YAMLPathException:
        note(problem="set refused")
        return False
    after = _plain(doc)
    note(after=after, expected=expected)
    return after == expected


POOL = [1, 2, "a", "b"]


def set_pool(k0: int, k1: int, k2: int, i: int, vk: int) -> bool:
    """Leaves are real pooled objects (equal leaves share an object, keys 'a'/'b' exist): only l[i] changes."""
    k0, k1, k2, i, vk = realize(k0), realize(k1), realize(k2), realize(i), realize(vk)
    lst = cseq(POOL[k0], POOL[k1], POOL[k2])
    doc = cmap(("a", "x"), ("b", POOL[k0]), ("l", lst))
    v = [9, "z", True, None, 2.5][vk]
    before = _plain(doc)
    note(document={"a": "x", "b": POOL[k0], "l": [POOL[k0], POOL[k1], POOL[k2]]}, path="l[%d]" % i, value=v)
    proc = Processor(LOG, doc)
    proc.set_value("l[" + str(i) + "]", v, mustexist=True)
    expected = before
    expected[1][2][1][1][i] = v
    after = _plain(doc)
    note(after=after, expected=expected)
    return after == expected and _reload_same(doc)


def set_two_lists(k: int) -> bool:
    """Two lists (and a list of lists) holding pooled objects - equal lists included: only the addressed element changes."""
    k = realize(k)
    k0, k = k % 3, k // 3
    k1, k = k % 3, k // 3
    k2, k = k % 3, k // 3
    k3, k = k % 3, k // 3
    which, k = k % 3, k // 3
    i = k % 2
    p, q = cseq(POOL[k0], POOL[k1]), cseq(POOL[k2], POOL[k3])
    rows = cseq(cseq(POOL[k0], POOL[k1]), cseq(POOL[k2], POOL[k3]))
    doc = cmap(("p", p), ("q", q), ("rows", rows))
    before = _plain(doc)
    path = ["p[%d]" % i, "q[%d]" % i, "rows[1][%d]" % (i - 2)][which]
    note(document=before, path=path, value=9)
    proc = Processor(LOG, doc)
    proc.set_value(path, 9, mustexist=True)
    expected = before
    if which == 0:
        expected[1][0][1][1][i] = 9
    elif which == 1:
        expected[1][1][1][1][i] = 9
    else:
        expected[1][2][1][1][1][1][i] = 9
    after = _plain(doc)
    note(after=after, expected=expected)
    return after == expected


def set_key_pool(k: int, vk: int) -> bool:
    """{a: <pooled>, b: x}: setting a changes only a's value (keys spelled like the old value stay)."""
    k, vk = realize(k), realize(vk)
    doc = cmap(("a", POOL[k]), ("b", "x"), ("c", POOL[k]))
    v = [9, "z", True, None][vk]
    note(document={"a": POOL[k], "b": "x", "c": POOL[k]}, path="a", value=v)
    proc = Processor(LOG, doc)
    proc.set_value("a", v, mustexist=True)
    after = _plain(doc)
    expected = ["map", [["a", v], ["b", "x"], ["c", POOL[k]]]]
    note(after=after, expected=expected)
    return after == expected and _reload_same(doc)


def set_alias(where: int, vk: int, via: int) -> bool:
    """An anchored scalar aliased at 2 places: setting it through either place updates both, anchor kept, rest untouched."""
    where, vk, via = realize(where), realize(vk), realize(via)
    anchored = PlainScalarString("old", anchor="anc")
    other = PlainScalarString("old")
    if where == 0:
        doc = cmap(("x", anchored), ("y", anchored), ("z", other), ("l", cseq("old", 1)))
        paths = ["x", "y", "&anc"]
        spots = [("x",), ("y",)]
    else:
        lst = cseq(anchored, "old", anchored)
        doc = cmap(("l", lst), ("z", other), ("k", anchored))
        paths = ["l[0]", "k", "l[&anc]"]
        spots = [("l", 0), ("l", 2), ("k",)]
    v = ["new", 7, "old2"][vk]
    before = _plain(doc)
    path = paths[via]
    note(path=path, value=v, before=before)
    proc = Processor(LOG, doc)
    proc.set_value(path, v, mustexist=True)
    after = _plain(doc)

    def get(d, trail):
        for r in trail:
            d = d[r]
        return d
    for sp in spots:
        node = get(doc, sp)
        if node != v:
            note(problem="alias position %r holds %r" % (sp, node))
            return False
        if not hasattr(node, "anchor") or node.anchor.value != "anc":
            note(problem="anchor lost at %r" % (sp,))
            return False
    first = get(doc, spots[0])
    for sp in spots[1:]:
        if get(doc, sp) is not first:
            note(problem="aliases no longer share one node")
            return False
    # frame: everything that is not an alias position is unchanged
    if doc["z"] != "old":
        return False
    if where == 0 and list(doc["l"]) != ["old", 1]:
        return False
    if where == 1 and doc["l"][1] != "old":
        return False
    return _reload_same(doc)


MK_TEXT = """---
defaults: &defaults
  adapter: 'postgres'
  host: &h localhost
  port: 5432
  name: plain
development:
  <<: *defaults
  database: dev
test:
  <<: *defaults
  host: other
  peer: *h
"""
MK_SETS = [("defaults", "adapter"), ("defaults", "host"), ("defaults", "port"), ("defaults", "name"),
           ("development", "database"), ("test", "host")]
MK_VALUES = ["mysql", 7, "two words", True]


def _mk_view(doc):
    """(own keys per mapping, merged view per mapping) of the merge-key document as plain data."""
    own, view = {}, {}
    for name in ("defaults", "development", "test"):
        m = doc[name]
        own[name] = [(str(k), _plain(v)) for k, v in m.non_merged_items()] if hasattr(m, "non_merged_items") \
            else [(str(k), _plain(v)) for k, v in m.items()]
        view[name] = dict((str(k), _plain(v)) for k, v in m.items())
    return own, view


def set_mergekey(k: int) -> bool:
    """A document using YAML merge keys (<<: *anchor): a 2-step history of sets (with a dump -> strict reload between
    the steps) changes exactly the addressed own key; mappings that merge the changed mapping see the new value through
    the merge and gain no key of their own; aliases of a changed anchored scalar follow."""
    import io
    from yamlpath.common import Parsers
    k = realize(k)
    s1, k = k % len(MK_SETS), k // len(MK_SETS)
    s2, k = k % len(MK_SETS), k // len(MK_SETS)
    v1, k = k % len(MK_VALUES), k // len(MK_VALUES)
    slash = bool(k % 2)
    with NoTracing():
        (doc, ok) = Parsers.get_yaml_data(Parsers.get_yaml_editor(), LOG, MK_TEXT, literal=True)
    m_own = {"defaults": {"adapter": "postgres", "host": "localhost", "port": 5432, "name": "plain"},
             "development": {"database": "dev"}, "test": {"host": "other", "peer": "localhost"}}
    steps = [(MK_SETS[s1], MK_VALUES[v1]), (MK_SETS[s2], MK_VALUES[(v1 + 1) % len(MK_VALUES)])]
    for step, ((mp, key), val) in enumerate(steps):
        path = ("/%s/%s" if slash else "%s.%s") % (mp, key)
        note(**{"step%d" % step: "set %s = %r" % (path, val)})
        Processor(LOG, doc).set_value(path, val, mustexist=True)
        m_own[mp][key] = val
        if (mp, key) == ("defaults", "host"):
            m_own["test"]["peer"] = val          # *h is an alias of the anchored scalar
        for rnd in range(2):
            own, view = _mk_view(doc)
            for name in m_own:
                want_own = dict(m_own[name])
                got_own = dict(own[name])
                want_view = dict(m_own["defaults"]) if name != "defaults" else {}
                want_view.update(m_own[name])
                if got_own != want_own or [kk for kk, _ in own[name]] != list(m_own[name]):
                    note(problem="own keys of %s after step %d%s" % (name, step, " (reloaded)" if rnd else ""), got=own[name],
                         expected=sorted(want_own.items(), key=str))
                    return False
                # ruamel copies merged-in entries into the merging mapping at load time; that copy is only refreshed by
                # a reload, so the merged view is asserted on the reloaded document (the serialised form) only
                if rnd == 1 and view[name] != want_view:
                    note(problem="merged view of %s after step %d%s" % (name, step, " (reloaded)" if rnd else ""),
                         got=view[name], expected=want_view)
                    return False
            if rnd == 0:
                with NoTracing():
                    buf = io.StringIO()
                    Parsers.get_yaml_editor().dump(doc, buf)
                    (doc, ok) = Parsers.get_yaml_data(Parsers.get_yaml_editor(), LOG, buf.getvalue(), literal=True)
                if not ok:
                    note(problem="dump does not reload after step %d" % step)
                    return False
    return True


def _seq(x):
    return list(x) if isinstance(x, list) else x


def _map(x):
    return dict(x) if isinstance(x, dict) else x


def history(op1: int, i1: int, op2: int, i2: int, v: int, a: int, b: int, c: int) -> bool:
    """Two edits (set existing / set creating / delete) compared step by step with a plain-data model."""
    lst = cseq(a, b, c)
    doc = cmap(("k", 0), ("l", lst), ("h", cmap(("p", 5))), ("e", cmap()), ("z", cseq()))
    model = {"k": 0, "l": [a, b, c], "h": {"p": 5}, "e": {}, "z": []}
    proc = Processor(LOG, doc)
    for step, (op, i) in enumerate(((op1, i1), (op2, i2))):
        n = len(model["l"])
        if op == 0:          # set existing element (step 2: the slot right behind the original elements, if any)
            if step == 1 and n > 3:
                i = 3
            if not (0 <= i < n):
                continue
            proc.set_value("l[" + str(i) + "]", v + 5, mustexist=True)
            model["l"][i] = v + 5
        elif op == 1:        # create (append / new key)
            if i == 0:
                proc.set_value("l[" + str(n) + "]", v)
                model["l"].append(v)
            elif i == 1:
                proc.set_value("h.n" + str(step), v)
                model["h"]["n" + str(step)] = v
            elif i == 2:       # below an existing EMPTY hash
                proc.set_value("e.n" + str(step), v)
                model["e"]["n" + str(step)] = v
            elif i == 3 and step == 0:   # far beyond the end: pad slots appear (their values are not specified)
                proc.set_value("l[" + str(n + 2) + "]", v)
                if len(doc["l"]) != n + 3 or doc["l"][n + 2] != v or list(doc["l"])[:n] != model["l"]:
                    return False
                model["l"] = list(doc["l"])       # adopt the pads as they are; later steps must not touch them
            else:              # into an existing EMPTY list
                proc.set_value("z[" + str(len(model["z"])) + "]", v)
                model["z"].append(v)
        else:                # delete element
            if not (0 <= i < n):
                continue
            for _ in proc.delete_nodes("l[" + str(i) + "]"):
                pass
            del model["l"][i]
        got = {"k": doc["k"], "l": _seq(doc["l"]), "h": _map(doc["h"]), "e": _map(doc["e"]), "z": _seq(doc["z"])}
        note(step=step, op=op, i=i, got=got, model=model)
        if got != model or list(doc.keys()) != ["k", "l", "h", "e", "z"]:
            return False
    return True


def history_reload(op1: int, i1: int, op2: int, i2: int) -> bool:
    """The same histories on a concrete document, followed by dump -> strict reload (selector-driven)."""
    op1, i1, op2, i2 = realize(op1), realize(i1), realize(op2), realize(i2)
    if not history(op1, i1, op2, i2, 7, 1, 1, 2):
        return False
    lst = cseq(1, 1, 2)
    doc = cmap(("k", 0), ("l", lst), ("h", cmap(("p", 5))))
    proc = Processor(LOG, doc)
    for step, (op, i) in enumerate(((op1, i1), (op2, i2))):
        n = len(doc["l"])
        if op == 0 and 0 <= i < n:
            proc.set_value("l[" + str(i) + "]", "s p", mustexist=True)
        elif op == 1:
            proc.set_value("h.n" + str(step), [None, True, 2.5, "x: y"][i])
        elif op == 2 and 0 <= i < n:
            for _ in proc.delete_nodes("l[" + str(i) + "]"):
                pass
    return _reload_same(doc)


FRAME_Q = [("ML3", "idx"), ("ML3", "barekey"), ("M3", "p"), ("MM", "p"), ("ML3", "el_gt"), ("AOH3", "p"),
           ("AOHX", "at_gt_n"), ("AOH3", "idx_p"), ("L3", "star"), ("MM", "deep"), ("M3", "key_sw"), ("ML3", "slice")]


def shards(tier, seed):
    out = []
    pairs = list(FRAME_Q)
    if tier == "thorough":
        pairs += [("LNULL", "idx"), ("LNULL", "el_eq"), ("ML3", "el_ngt"), ("ML3", "el_eq"), ("ML3", "star"), ("ML3", "deep"),
                  ("AOHX", "p"), ("AOHD", "deep_p"), ("AOHD", "d_p"), ("HOH", "star_p"), ("HOH", "deep_p"), ("M3", "hslice"),
                  ("M3", "star"), ("M3", "deep"), ("MINT", "k1"), ("MSTRNUM", "k1"), ("SCAL", "p"), ("LL", "idx_idx"),
                  ("AOH3", "slice_p"), ("AOH3", "p_el_gt"), ("AOHX", "star_p"), ("L3", "idx"), ("L3", "el_gt")]
    for s, t in pairs:
        _pf, _sf, uses_i, uses_j, tdesc = c01.TEMPLATES[t]
        params, pre = [], []
        if uses_i:
            params.append(("i", "int"))
            pre.append("-4 <= i <= 4")
        if uses_j:
            params.append(("j", "int"))
            pre.append("-4 <= j <= 4")
        params += [("v", "int"), ("a", "int"), ("b", "int"), ("c", "int")]
        pre += ["-1 <= v <= 1", "-9 <= a <= 9 and -9 <= b <= 9 and -9 <= c <= 9"]
        out.append(shard(PID, "frame/%s/%s" % (s, t), "harness.c03",
                         "set_frame(%r, %r, %s, %s, v, a, b, c)" % (s, t, "i" if uses_i else "0", "j" if uses_j else "0"),
                         params, pre, family="frame/%s/%s" % (s, t), budget=900,
                         desc="set + frame + reload: %s x <focus>%s" % (docs.describe(s), tdesc),
                         bounds={"v": "[-1,1]", "a,b,c": "[-9,9] distinct symbolic objects", "i,j": "[-4,4]"}))
    for k0 in range(4):
        for vk in (range(5) if tier == "thorough" else [0, 3]):
            out.append(shard(PID, "pool/list/k%d_v%d" % (k0, vk), "harness.c03", "set_pool(%d, k1, k2, i, %d)" % (k0, vk),
                             [("k1", "int"), ("k2", "int"), ("i", "int")],
                             ["0 <= k1 < 4 and 0 <= k2 < 4", "0 <= i <= 2"], family="pool/list",
                             budget=900, kind="S",
                             desc="pooled real objects in a list (equal leaves share one object), set l[i]; dump + reload"))
    for lo in range(0, 81 * 6, 81):
        out.append(shard(PID, "pool/two_lists/k%03d" % lo, "harness.c03", "set_two_lists(k)", [("k", "int")],
                         ["%d <= k < %d" % (lo, lo + 81)], family="pool/two_lists", budget=1200, kind="S",
                         desc="two lists and a list of rows over pooled objects (equal lists included); set one element "
                              "(combined selector slice)"))
    out.append(shard(PID, "pool/key", "harness.c03", "set_key_pool(k, vk)", [("k", "int"), ("vk", "int")],
                     ["0 <= k < 4", "0 <= vk < 4"], family="pool/key", budget=600, kind="S",
                     desc="value spelled like a key elsewhere; set changes only the value"))
    out.append(shard(PID, "alias", "harness.c03", "set_alias(where, vk, via)",
                     [("where", "int"), ("vk", "int"), ("via", "int")], ["0 <= where <= 1", "0 <= vk <= 2", "0 <= via <= 2"],
                     family="alias", budget=600, kind="S", desc="anchored scalar with aliases under keys / inside a list"))
    nmk = len(MK_SETS) * len(MK_SETS) * len(MK_VALUES) * 2
    for lo in range(0, nmk, 72):
        out.append(shard(PID, "mergekey/k%03d" % lo, "harness.c03", "set_mergekey(k)", [("k", "int")],
                         ["%d <= k < %d" % (lo, min(nmk, lo + 72))], family="mergekey", budget=1200, kind="S",
                         desc="document with YAML merge keys and an aliased anchored scalar: 2 sets with dump -> strict "
                              "reload after each (combined selector slice)"))
    ops = [(o1, o2) for o1 in range(3) for o2 in range(3)]
    if tier == "quick":
        ops = [(0, 2), (2, 0), (1, 0), (2, 2)]
    for o1, o2 in ops:
        out.append(shard(PID, "history/2/op%d%d" % (o1, o2), "harness.c03", "history(%d, i1, %d, i2, v, a, b, c)" % (o1, o2),
                         [("i1", "int"), ("i2", "int"), ("v", "int"), ("a", "int"), ("b", "int"), ("c", "int")],
                         ["0 <= i1 <= 3 and 0 <= i2 <= 3", "-1 <= v <= 1",
                          "-9 <= a <= 9 and -9 <= b <= 9 and -9 <= c <= 9"], family="history", budget=900,
                         desc="2-step history (%s then %s) on {k, l: [a, b, c], h}" % (
                             ["set", "create", "delete"][o1], ["set", "create", "delete"][o2])))
        out.append(shard(PID, "history/reload/op%d%d" % (o1, o2), "harness.c03", "history_reload(%d, i1, %d, i2)" % (o1, o2),
                         [("i1", "int"), ("i2", "int")], ["0 <= i1 <= 3 and 0 <= i2 <= 3"], family="history", budget=900,
                         kind="S", desc="the same history on a concrete document with repeated scalars, then dump and strict reload"))
    return out
