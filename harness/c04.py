"""C04 - a delete removes exactly the matched nodes, whatever their number or position."""
from ruamel.yaml.comments import CommentedSet

from yamlpath import Processor
from yamlpath.exceptions import YAMLPathException

from vf import docs
from vf.common import LOG, cmap, cseq
from vf.model_query import ref_eval, Undefined
from vf.shard import shard, note
from harness.qcommon import K, B, mkpath
from harness import c01

PID = "C04"
FILES = ["yamlpath/processor.py", "yamlpath/common/anchors.py", "yamlpath/wrappers/nodecoords.py"]
FUNCTIONS = ["Processor.delete_nodes", "Processor._delete_nodes", "Processor.delete_gathered_nodes",
             "Processor._get_required_nodes and the segment handlers that gather the targets"]
STUBS = ["logger: real ConsolePrinter(quiet)"]
OUTSIDE = ["deleting a merged-in (inherited) key or a merge reference itself; sets; shapes and templates outside the catalogues",
           "which nodes a path matches is C01's claim: here the matched set comes from the C01 reference model"]
ASSUMPTIONS = ["oracle: plain-data model 'remove exactly the matched positions, keep everything else in order'"]


def _locate(node, target, trail):
    """Reference path (tuple of keys/indexes) of container `target` inside `node`, by identity."""
    if node is target:
        return trail
    if isinstance(node, dict):
        for k, v in node.items():
            r = _locate(v, target, trail + (k,))
            if r is not None:
                return r
    elif isinstance(node, list):
        for i, v in enumerate(node):
            r = _locate(v, target, trail + (i,))
            if r is not None:
                return r
    return None


def _plain(node):
    if isinstance(node, dict):
        return ["map", [[k, _plain(v)] for k, v in node.items()]]
    if isinstance(node, list):
        return ["seq", [_plain(v) for v in node]]
    return node


def _child(pl, ref):
    if pl[0] == "map":
        for k, v in pl[1]:
            if k == ref:
                return v
        return None
    return pl[1][ref]


def model_delete(doc, coords):
    """Plain image of doc after removing the given (parent, ref) positions."""
    pl = _plain(doc)
    targets = []
    for (parent, ref, _n) in coords:
        trail = _locate(doc, parent, ())
        if trail is None:
            return None
        if isinstance(parent, list):
            ref = ref % len(parent)
        targets.append((trail, ref))
    uniq = []
    for t in targets:
        if t not in uniq:
            uniq.append(t)
    # deeper first, then higher indexes first, so that nothing shifts under a pending deletion
    uniq.sort(key=lambda t: (-len(t[0]), -t[1] if isinstance(t[1], int) else 0))
    for trail, ref in uniq:
        cur = pl
        ok = True
        for r in trail:
            cur = _child(cur, r)
            if cur is None or not isinstance(cur, list):
                ok = False
                break
        if not ok:
            continue
        if cur[0] == "map":
            cur[1][:] = [kv for kv in cur[1] if kv[0] != ref]
        else:
            if 0 <= ref < len(cur[1]):
                del cur[1][ref]
    return pl


EXTRA = {
    # duplicates of one node through collector addition, empty-container targets
    "dup_idx": (lambda i, j: [B("([" + str(i) + "])+([" + str(i) + "])")], lambda i, j: [("idx", i)], True, "([i])+([i])"),
    "dup_star": (lambda i, j: [B("(*)+([" + str(i) + "])")], lambda i, j: [("star",)], True, "(*)+([i])"),
}


def delete_exact(shape: str, template: str, i: int, j: int, a: int, b: int, c: int, slash: bool) -> bool:
    """After delete_nodes(path) the document equals the model with exactly the matched positions removed."""
    if template in EXTRA:
        pieces_fn, segs_fn = EXTRA[template][0], EXTRA[template][1]
    else:
        pieces_fn, segs_fn = c01.TEMPLATES[template][0], c01.TEMPLATES[template][1]
    doc = docs.build(shape, a, b, c)
    foc = docs.focus(shape)
    segs = [("key", part) for part in foc.split(".") if part] + segs_fn(i, j)
    path = mkpath(foc, pieces_fn(i, j), slash)
    note(document=docs.describe(shape), leaves=[a, b, c], path=path)
    try:
        want = ref_eval(doc, segs)
    except Undefined:
        return True
    if not want or any(p is None for (p, _r, _n) in want):
        return True          # nothing matched (delete raises/does nothing) or the root matched (see root_refused)
    expected = model_delete(doc, want)
    if expected is None:
        return True
    proc = Processor(LOG, doc)
    try:
        for _ in proc.delete_nodes(path):
            pass
    except YAMLPathException:
        note(problem="delete refused")
        return False
    after = _plain(doc)
    note(after=after, expected=expected)
    return after == expected


def root_refused(kind: int, a: int) -> bool:
    """Deleting the document root raises a YAML Path error and changes nothing."""
    doc = [cmap(("p", a)), cseq(a, 1), cmap()][kind]
    before = _plain(doc)
    proc = Processor(LOG, doc)
    try:
        for _ in proc.delete_nodes("/"):
            pass
    except YAMLPathException:
        return _plain(doc) == before
    return False


def delete_again(i: int, j: int, a: int, b: int, c: int) -> bool:
    """Two delete_nodes() calls in a row on ONE Processor, possibly at the same index: each removes its match."""
    vals = [a, b, c, 7, 8]
    lst = cseq(*vals)
    doc = cmap(("l", lst), ("h", cmap(("p", a), ("q", b))))
    proc = Processor(LOG, doc)
    note(i=i, j=j, leaves=[a, b, c])
    for _ in proc.delete_nodes("l[" + str(i) + "]"):
        pass
    del vals[i]
    for _ in proc.delete_nodes("l[" + str(j) + "]"):
        pass
    del vals[j]
    if list(doc["l"]) != vals:
        return False
    for _ in proc.delete_nodes("h.p"):
        pass
    proc.set_value("h.p", 1)
    for _ in proc.delete_nodes("h.p"):
        pass
    return list(doc["h"].keys()) == ["q"] and list(doc["l"]) == vals


def gathered(i: int, j: int, a: int, b: int, c: int) -> bool:
    """delete_gathered_nodes over results gathered by two queries on one list removes both (any order of i, j)."""
    lst = cseq(a, b, c, 7)
    doc = cmap(("l", lst), ("k", 0))
    proc = Processor(LOG, doc)
    g = [nc for nc in proc.get_nodes("l[" + str(i) + "]", mustexist=True)]
    g += [nc for nc in proc.get_nodes("l[" + str(j) + "]", mustexist=True)]
    vals = [a, b, c, 7]
    want = [v for k, v in enumerate(vals) if k != i and k != j]
    note(i=i, j=j, leaves=[a, b, c])
    if i < j:
        proc.delete_gathered_nodes(g)        # gathered in ascending document order, as delete_nodes does
        return list(doc["l"]) == want and doc["k"] == 0
    return True


ANC_TEXT = """---
limits: &limits
  cpu: 2
  mem: 4
base: &base
  tier: 1
services:
  web:
    <<: *base
    limits: {cpu: 1}
    name: web
  db:
    limits: *limits
    name: db
  api:
    <<: *limits
    name: api
  one:
    tier: 9
    base: 3
lst: &lst [1, 2]
tg: 5
tags: [&tg x, y, *tg, z]
"""
# (path in dot notation, own keys removed as (mapping trail, key), list elements removed as (list trail, indexes))
ANC_DELETES = [
    ("limits", [((), "limits")], []),
    ("services.web.limits", [(("services", "web"), "limits")], []),
    ("services.db.limits", [(("services", "db"), "limits")], []),
    ("services.*.limits", [(("services", "web"), "limits"), (("services", "db"), "limits")], []),
    ("services.one.base", [(("services", "one"), "base")], []),
    ("services.*.name", [(("services", "web"), "name"), (("services", "db"), "name"), (("services", "api"), "name")], []),
    ("tg", [((), "tg")], []),
    ("lst", [((), "lst")], []),
    ("tags[&tg]", [], [(("tags",), [0, 2])]),
    ("tags[1]", [], [(("tags",), [1])]),
    ("services.one.tier", [(("services", "one"), "tier")], []),
]


def _own(m):
    return [(k, v) for k, v in m.non_merged_items()] if hasattr(m, "non_merged_items") else list(m.items())


def _own_image(node):
    """Plain image by OWN keys (merged-in keys are not listed; merge references are listed by anchor name)."""
    if isinstance(node, dict):
        merges = [getattr(getattr(mn, "anchor", None), "value", None) for (_i, mn) in getattr(node, "merge", [])]
        return ["map", merges, [[k, _own_image(v)] for k, v in _own(node)]]
    if isinstance(node, list):
        return ["seq", [_own_image(v) for v in node]]
    return node


def delete_anchored(k: int, slash: bool) -> bool:
    """Deletes in a document with anchors, aliases and merge keys - among them keys NAMED like an anchor defined
    elsewhere: exactly the matched own keys / elements disappear (also after dump -> strict reload)."""
    import io
    from crosshair import realize, NoTracing
    from yamlpath.common import Parsers
    k = realize(k)
    path, keys, elements = ANC_DELETES[k]
    if slash:
        path = "/" + path.replace(".", "/")
    with NoTracing():
        (doc, ok) = Parsers.get_yaml_data(Parsers.get_yaml_editor(), LOG, ANC_TEXT, literal=True)
        (ref, ok2) = Parsers.get_yaml_data(Parsers.get_yaml_editor(), LOG, ANC_TEXT, literal=True)
    note(path=path)
    for (trail, key) in keys:
        cur = ref
        for r in trail:
            cur = cur[r]
        del cur[key]
    for (trail, idxs) in elements:
        cur = ref
        for r in trail:
            cur = cur[r]
        for i in sorted(idxs, reverse=True):
            del cur[i]
    for _ in Processor(LOG, doc).delete_nodes(path):
        pass
    got, want = _own_image(doc), _own_image(ref)
    if got != want:
        note(problem="document after the delete", got=got, expected=want)
        return False
    with NoTracing():
        buf, buf2 = io.StringIO(), io.StringIO()
        Parsers.get_yaml_editor().dump(doc, buf)
        Parsers.get_yaml_editor().dump(ref, buf2)
        (back, ok) = Parsers.get_yaml_data(Parsers.get_yaml_editor(), LOG, buf.getvalue(), literal=True)
        (back2, ok2) = Parsers.get_yaml_data(Parsers.get_yaml_editor(), LOG, buf2.getvalue(), literal=True)
    if not ok or not ok2 or _plain(back) != _plain(back2):
        note(problem="reloaded document after the delete", got=_plain(back) if ok else None, expected=_plain(back2))
        return False
    return True


PAIRS_Q = [("ML3", "idx"), ("ML4", "slice"), ("ML3", "el_gt"), ("ML4", "el_eq"), ("ML3", "star"), ("LL", "idx"),
           ("LL", "star"), ("ML0", "star"), ("LL", "idx_idx"), ("AOH3", "p"), ("AOHX", "at_gt"), ("AOH3", "idx_p"),
           ("MM", "p"), ("MM", "deep"), ("HOH", "star_p"), ("L3", "idx"), ("LNULL", "el_eq"), ("ML3", "barekey"),
           ("ML3", "dup_idx"), ("LL", "deep"), ("ML0", "p")]


def _mk(shape, template, tier):
    if template in EXTRA:
        uses_i, uses_j, tdesc = EXTRA[template][2], False, EXTRA[template][3]
    else:
        _pf, _sf, uses_i, uses_j, tdesc = c01.TEMPLATES[template]
    params, pre = [], []
    if uses_i:
        params.append(("i", "int"))
        pre.append("-5 <= i <= 5")
    if uses_j:
        params.append(("j", "int"))
        pre.append("-5 <= j <= 5")
    fixed = uses_i and uses_j and tier == "quick"
    params += [("a", "int"), ("b", "int"), ("c", "int")] + ([] if fixed else [("slash", "bool")])
    pre.append("-9 <= a <= 9 and -9 <= b <= 9 and -9 <= c <= 9")
    call = "delete_exact(%r, %r, %s, %s, a, b, c, %s)" % (shape, template, "i" if uses_i else "0",
                                                        "j" if uses_j else "0", "False" if fixed else "slash")
    return shard(PID, "del/%s/%s" % (shape, template), "harness.c04", call, params, pre,
                 family="del/%s/%s" % (shape, template), budget=900,
                 desc="delete: %s  x  <focus>%s" % (docs.describe(shape), tdesc),
                 bounds={"i,j": "[-5,5]", "a,b,c": "[-9,9]"})


def shards(tier, seed):
    out = []
    pairs = list(PAIRS_Q)
    if tier == "thorough":
        for s in ["ML3", "ML4", "LNULL", "LL", "L3", "L2", "ML0", "LMIX"]:
            pairs += [(s, t) for t in ["idx", "barekey", "slice", "el_gt", "el_ngt", "el_eq", "el_le", "star", "deep",
                                       "dup_idx", "dup_star"]]
        for s in c01.AOHS:
            pairs += [(s, t) for t in ["p", "idx_p", "at_gt", "at_ngt", "at_eq", "star", "star_p", "deep", "deep_p", "idx",
                                       "slice", "at_gt_n", "p_el_gt", "slice_p"]]
        for s in ["M3", "MM", "HOH", "MNULL", "MINT", "SCAL"]:
            pairs += [(s, t) for t in ["p", "k1", "hslice", "key_sw", "key_neq", "at_gt", "star", "star_p", "deep", "deep_p"]]
        pairs += [("LL", "idx_idx"), ("LL", "star_idx")]
    seen = set()
    for s, t in pairs:
        if (s, t) in seen:
            continue
        seen.add((s, t))
        out.append(_mk(s, t, tier))
    out.append(shard(PID, "anchored", "harness.c04", "delete_anchored(k, slash)", [("k", "int"), ("slash", "bool")],
                     ["0 <= k < %d" % len(ANC_DELETES)], family="anchored", budget=900, kind="S",
                     desc="deletes in a document with anchors, aliases and merge keys (keys named like an anchor defined "
                          "elsewhere, aliased list elements by anchor, a key under a mapping that merges another anchor)"))
    out.append(shard(PID, "root", "harness.c04", "root_refused(kind, a)", [("kind", "int"), ("a", "int")],
                     ["0 <= kind <= 2", "-9 <= a <= 9"], family="root", budget=300,
                     desc="deleting the document root is refused and changes nothing"))
    out.append(shard(PID, "delete_again", "harness.c04", "delete_again(i, j, a, b, c)",
                     [("i", "int"), ("j", "int"), ("a", "int"), ("b", "int"), ("c", "int")],
                     ["0 <= i <= 4 and 0 <= j <= 3", "-9 <= a <= 9 and -9 <= b <= 9 and -9 <= c <= 9"], family="sequence",
                     budget=900, desc="two deletes in a row on one Processor (same or different index), delete/set/delete of a key"))
    out.append(shard(PID, "gathered", "harness.c04", "gathered(i, j, a, b, c)",
                     [("i", "int"), ("j", "int"), ("a", "int"), ("b", "int"), ("c", "int")],
                     ["0 <= i <= 3 and 0 <= j <= 3", "-9 <= a <= 9 and -9 <= b <= 9 and -9 <= c <= 9"], family="gathered",
                     budget=600, desc="delete_gathered_nodes over two gathered elements of one list"))
    return out
