"""C19 - EYAML key rotation re-keys every secret once and touches nothing else."""
import contextlib
import io

from crosshair import realize
from ruamel.yaml.scalarstring import PlainScalarString, FoldedScalarString

from yamlpath.eyaml import EYAMLProcessor

from vf.common import LOG, cmap, cseq
from vf.shard import shard, note
from vf.stubs import FakeFS, enc, fake_eyaml_run
from harness.c17 import _rotate_main

PID = "C19"
FILES = ["yamlpath/commands/eyaml_rotate_keys.py", "yamlpath/eyaml/eyamlprocessor.py", "yamlpath/processor.py",
         "yamlpath/common/anchors.py"]
FUNCTIONS = ["EYAMLProcessor.is_eyaml_value", "eyaml_rotate_keys.main", "EYAMLProcessor.find_eyaml_paths/_find_eyaml_paths",
             "EYAMLProcessor.decrypt_eyaml/encrypt_eyaml/set_eyaml_value/_can_run_eyaml", "Processor.get_nodes/set_value"]
STUBS = ["the eyaml executable: subprocess.run as imported by eyamlprocessor is re-bound to an in-process keyed reversible "
         "cipher speaking the same argv/stdin protocol and failing on a wrong key (vf/stubs.py)",
         "document loading (Parsers.get_yaml_data) returns the harness document; file system = in-memory FakeFS; argv replaced"]
OUTSIDE = ["the real eyaml binary and real keys; plaintexts outside the pool; documents parsed from text",
           "rotation shards are selector-driven (ciphertext crosses encode/decode and ruamel scalar constructors)"]
ASSUMPTIONS = ["marker spec: value without spaces and line feeds starts with 'ENC['"]

PLAIN = ["s1", "  lead", "x y"]


def marker_ok(v: str) -> bool:
    """is_eyaml_value(v) iff v without spaces and line feeds begins with ENC[."""
    got = EYAMLProcessor.is_eyaml_value(v)
    stripped = ""
    for c in v:
        if c != " " and c != "\n":
            stripped += c
    want = stripped[:4] == "ENC["
    note(value=v, observed=got, expected=want)
    return got == want


def marker_nonstr(k: int) -> bool:
    k = realize(k)
    v = [None, 5, 2.5, True, ["ENC[x]"], {"a": "ENC[x]"}][k]
    return EYAMLProcessor.is_eyaml_value(v) is False


def rotate(k: int, backup: bool) -> bool:
    """After a successful rotation every secret decrypts under the new keys to its old plaintext and no longer under
    the old ones; shared (anchored) secrets are rotated once and stay shared; nothing else changes."""
    k = realize(k)
    sec0, k = k % 2, k // 2          # hash value is a secret?
    sec1, k = k % 2, k // 2          # list element is a secret?
    anch, k = k % 2, k // 2          # an anchored secret aliased at two places?
    folded, k = k % 2, k // 2        # secret in folded style
    p0, k = k % 3, k // 3
    p1 = k % 3
    mk = FoldedScalarString if folded else PlainScalarString
    v0 = mk(enc("OLD", PLAIN[p0])) if sec0 else PLAIN[p0]
    v1 = mk(enc("OLD", PLAIN[p1])) if sec1 else PLAIN[p1]
    pairs = [("a", v0), ("l", cseq("x", v1)), ("z", 5)]
    shared = None
    if anch:
        shared = PlainScalarString(enc("OLD", "shared"), anchor="sh")
        pairs += [("s1", shared), ("s2", shared)]
    data = cmap(*pairs)
    fs = FakeFS({"f.yaml": b"ORIGINAL"})
    note(secret_in_hash=bool(sec0), secret_in_list=bool(sec1), anchored_shared=bool(anch), folded=bool(folded),
         plaintexts=[PLAIN[p0], PLAIN[p1]], backup=backup)
    code, failed = _rotate_main(fs, data, backup)
    if failed or code != 0:
        note(problem="exit %r / io failure %r" % (code, failed))
        return False
    any_secret = bool(sec0 or sec1 or anch)

    def squash(x):
        return str(x).replace("\n", "").replace(" ", "")
    ok = True
    ok = ok and (squash(data["a"]) == squash(enc("NEW", PLAIN[p0])) if sec0 else data["a"] == PLAIN[p0])
    ok = ok and (squash(data["l"][1]) == squash(enc("NEW", PLAIN[p1])) if sec1 else data["l"][1] == PLAIN[p1])
    ok = ok and data["z"] == 5 and data["l"][0] == "x" and len(data["l"]) == 2
    want_keys = ["a", "l", "z"] + (["s1", "s2"] if anch else [])
    ok = ok and list(data.keys()) == want_keys
    if anch:
        ok = ok and squash(data["s1"]) == squash(enc("NEW", "shared")) and data["s1"] is data["s2"]
        ok = ok and data["s1"].anchor.value == "sh"
    writes = [x for x in fs.log if x.startswith("write ")]
    ok = ok and ((writes == ["write f.yaml"]) == any_secret) and (any_secret or fs.mutating_ops() == [])
    ok = ok and (("f.yaml.bak" in fs.files) == (any_secret and backup))
    if any_secret and backup:
        ok = ok and fs.files["f.yaml.bak"] == b"ORIGINAL"
    note(after={k2: str(v) for k2, v in data.items()}, ops=fs.log)
    return ok


def rotate_two_files(k: int) -> bool:
    """One invocation over two files: each file's secrets are rotated, also when both use the same anchor name."""
    k = realize(k)
    same_anchor, k = k % 2, k // 2
    second_has_plain, k = k % 2, k // 2
    backup = bool(k % 2)
    s1 = PlainScalarString(enc("OLD", "one"), anchor="sh")
    s2 = PlainScalarString(enc("OLD", "two"), anchor="sh" if same_anchor else "other")
    d1 = cmap(("a", s1), ("b", s1))
    d2 = cmap(("c", s2), ("d", s2))
    if second_has_plain:
        d2["e"] = PlainScalarString(enc("OLD", "three"))
    fs = FakeFS({"f1.yaml": b"ONE", "f2.yaml": b"TWO"})
    code, failed = _rotate_main(fs, None, backup, files={"f1.yaml": d1, "f2.yaml": d2})
    note(same_anchor_name=bool(same_anchor), exit_status=code, after_1={k2: str(v) for k2, v in d1.items()},
         after_2={k2: str(v) for k2, v in d2.items()}, ops=fs.log)
    if failed or code != 0:
        return False
    ok = str(d1["a"]) == enc("NEW", "one") and d1["a"] is d1["b"]
    ok = ok and str(d2["c"]) == enc("NEW", "two") and d2["c"] is d2["d"]
    if second_has_plain:
        ok = ok and str(d2["e"]) == enc("NEW", "three")
    writes = sorted(x for x in fs.log if x.startswith("write "))
    return ok and writes == ["write f1.yaml", "write f2.yaml"] and (("f2.yaml.bak" in fs.files) == backup)


def rotate_twins(k: int) -> bool:
    """Distinct collections with EQUAL content (copy-pasted blocks holding the same ciphertext) are each rotated."""
    k = realize(k)
    pa, k = k % 2, k // 2            # plaintext of the first block's secret
    pb, k = k % 2, k // 2            # plaintext of the second block's secret (equal plaintext => equal ciphertext)
    as_list, k = k % 2, k // 2       # blocks are hashes / lists
    backup = bool(k % 2)
    plain = ["pw", "other"]

    def block(pi):
        sec = PlainScalarString(enc("OLD", plain[pi]))
        return cseq("u", sec) if as_list else cmap(("user", "u"), ("password", sec))
    data = cmap(("staging", cmap(("db", block(pa)))), ("production", cmap(("db", block(pb)))), ("z", 5))
    fs = FakeFS({"f.yaml": b"ORIGINAL"})
    code, failed = _rotate_main(fs, data, backup)
    where = 1 if as_list else "password"
    got = [str(data["staging"]["db"][where]), str(data["production"]["db"][where])]
    note(plaintexts=[plain[pa], plain[pb]], blocks="lists" if as_list else "hashes", exit_status=code, after=got, ops=fs.log)
    if failed or code != 0:
        return False
    return got == [enc("NEW", plain[pa]), enc("NEW", plain[pb])] and data["z"] == 5 \
        and data["staging"]["db"] is not data["production"]["db"]


def shards(tier, seed):
    out = []
    n = 4 if tier == "quick" else 6
    out.append(shard(PID, "marker/str", "harness.c19", "marker_ok(v)", [("v", "str")], ["len(v) <= %d" % n], family="marker",
                     budget=1800, desc="is_eyaml_value on any string (all code points) up to length %d" % n,
                     bounds={"v": "str, any code points, len<=%d" % n}))
    out.append(shard(PID, "marker/nonstr", "harness.c19", "marker_nonstr(k)", [("k", "int")], ["0 <= k < 6"], family="marker",
                     budget=300, kind="S", desc="non-string values are never secrets"))
    out.append(shard(PID, "rotate/two_files", "harness.c19", "rotate_two_files(k)", [("k", "int")], ["0 <= k < 8"],
                     family="rotate", budget=900, kind="S",
                     desc="two files in one run, anchored secrets under the same / different anchor names"))
    out.append(shard(PID, "rotate/twins", "harness.c19", "rotate_twins(k)", [("k", "int")], ["0 <= k < 16"],
                     family="rotate", budget=900, kind="S",
                     desc="two distinct hashes / lists with equal or different content, each holding a secret (equal plaintexts give "
                          "equal ciphertext): every one is rotated"))
    total = 2 * 2 * 2 * 2 * 3 * 3
    step = 24
    for lo in range(0, total, step):
        out.append(shard(PID, "rotate/k%03d" % lo, "harness.c19", "rotate(k, backup)", [("k", "int"), ("backup", "bool")],
                         ["%d <= k < %d" % (lo, lo + step)], family="rotate", budget=900, kind="S",
                         desc="rotation over secret positions x anchored/shared x folded style x plaintext pool x --backup "
                              "(combined selector slice %d..%d of %d)" % (lo, lo + step - 1, total)))
    return out
