"""C14 - parsing any text ends in segments or a YAML Path error (DESIGN.md section 5, C14)."""
from collections import deque
from typing import List, Optional

from yamlpath import YAMLPath
from yamlpath.exceptions import YAMLPathException, TypeMismatchYAMLPathException
from yamlpath.enums import (PathSegmentTypes, PathSearchKeywords, PathSearchMethods, PathSeparators,
                            CollectorOperators)
from yamlpath.path import SearchKeywordTerms, SearchTerms, CollectorTerms

from vf import astcut
from vf.shard import shard, note

PID = "C14"
FILES = ["yamlpath/yamlpath.py", "yamlpath/enums/pathseparators.py", "yamlpath/enums/pathsearchkeywords.py",
         "yamlpath/path/searchterms.py", "yamlpath/path/searchkeywordterms.py", "yamlpath/path/collectorterms.py"]
FUNCTIONS = ["yamlpath.yamlpath:YAMLPath.__init__", "YAMLPath.original (setter)", "YAMLPath.separator (getter, setter)",
             "PathSeparators.infer_separator", "YAMLPath._parse_path (whole, and its loop body / epilogue cut from the AST at run time)",
             "YAMLPath._expand_splats", "YAMLPath.escaped", "YAMLPath.unescaped", "YAMLPath.__str__",
             "YAMLPath._stringify_yamlpath_segments", "YAMLPath.ensure_escaped", "SearchTerms.__str__",
             "SearchKeywordTerms.__str__", "CollectorTerms.__str__", "PathSearchKeywords.is_keyword"]
STUBS = ["int(<symbolic str>) is abstracted to 'raises ValueError or returns an arbitrary int in [-99, 99]' (vf/chint.py, C14 only; "
         "the parser only stores and formats that value)",
         "the four enum-typed parser locals enter the step condition as lazily decoded member indexes (vf/astcut.py)"]
OUTSIDE = ["whole-parse claim: texts longer than the stated length; beyond it the claim rests on the inductive step "
           "(arbitrary parser state within |segment_id|<=3, |search_attr|<=1, stack depth<=2) plus the structural "
           "termination check",
           "SearchKeywordTerms.parameters (lazy, evaluation time) belongs to C15"]
ASSUMPTIONS = ["parser-state invariant Inv (capturing_regex => non-empty stack; collector_level >= 0; "
               "next_char_must_be in {None,'(',']'}; stack entries are single characters) is inductive: "
               "checked by the step condition itself"]

SPECIALS = ["\\", " ", "'", '"', "(", ")", "[", "]", "=", "^", "$", "%", "!", ">", "<", "~", "&", "+", "-",
            ".", "/", "*", ":", ","]
SEPS = [PathSeparators.AUTO, PathSeparators.DOT, PathSeparators.FSLASH]


def parse_total(s: str, mode: int) -> bool:
    """Parse s under separator setting `mode`; only YAMLPathException may escape."""
    note(text=s, separator=str(SEPS[mode].name))
    try:
        p = YAMLPath(s)
        if mode == 1:
            p.separator = PathSeparators.DOT
        elif mode == 2:
            p.separator = PathSeparators.FSLASH
        p.escaped
        p.unescaped
        str(p)
    except YAMLPathException:
        return True
    return True


def not_special(c: str) -> bool:
    for x in SPECIALS:
        if c == x:
            return False
    return True


# ----------------------------------------------------------------------------- inductive step
try:
    _STEP_SRC = astcut.build_source()
    _CUT_ERROR = None
    exec(compile(_STEP_SRC, "<astcut /repo/yamlpath/yamlpath.py:_parse_path>", "exec"), globals())
except astcut.OutlineChanged as _ex:  # reported as inconclusive by VALIDATIONS
    _STEP_SRC = ""
    _CUT_ERROR = str(_ex)


class Lazy:
    __slots__ = ("code", "members")

    def __init__(self, code, members):
        self.code = code
        self.members = members


M_ST = [None] + list(PathSegmentTypes)
M_SM = [None] + list(PathSearchMethods)
M_SK = [None] + list(PathSearchKeywords)
M_CO = list(CollectorOperators)


def _is(x, e):
    if isinstance(x, Lazy):
        return x.code == x.members.index(e)
    return x is e


def _truthy(x):
    return not _is(x, None)


def _force(x):
    if isinstance(x, Lazy):
        return x.members[x.code]
    return x


def inv(demarc_stack, capturing_regex, collector_level, next_char_must_be):
    return ((not capturing_regex or len(demarc_stack) >= 1)
            and collector_level >= 0
            and (next_char_must_be is None or next_char_must_be in ("(", "]"))
            and all(len(x) == 1 for x in demarc_stack))


def step_ok(char: str, segment_id: str, st: int, demarc_stack: List[str], escape_next: bool,
            search_inverted: bool, sm: int, search_attr: str, sk: int, seeking_regex_delim: bool,
            capturing_regex: bool, collector_level: int, co: int, seeking_collector_operator: bool,
            next_char_must_be: Optional[str], seeking_anchor_mark: bool, strip_escapes: bool,
            fslash: bool) -> bool:
    """One loop iteration from an arbitrary Inv state raises only YAMLPathException and keeps Inv."""
    me = YAMLPath("")
    pathsep = "/" if fslash else "."
    try:
        out = step(me, "x", pathsep, strip_escapes, 0, char, deque(), segment_id, Lazy(st, M_ST),  # noqa: F821
                   demarc_stack, escape_next, search_inverted, Lazy(sm, M_SM), search_attr, Lazy(sk, M_SK),
                   seeking_regex_delim, capturing_regex, collector_level, Lazy(co, M_CO),
                   seeking_collector_operator, next_char_must_be, seeking_anchor_mark, 0)
    except YAMLPathException:
        return True
    (_ps, _sid, _st, ds, _en, _si, _sm, _sa, _sk, _srd, cr, cl, _co, _sco, ncmb, _sam, _dc) = out
    if not inv(ds, cr, cl, ncmb):
        return False
    # enum-typed locals still hold members (or None)
    for v, members in ((_st, M_ST), (_sm, M_SM), (_sk, M_SK), (_co, M_CO)):
        if not isinstance(v, Lazy) and v not in members:
            return False
    return True


def finish_ok(segment_id: str, st: int, demarc_stack: List[str], capturing_regex: bool, collector_level: int,
              demarc_count: int) -> bool:
    """The epilogue from an arbitrary Inv state raises only YAMLPathException."""
    me = YAMLPath("")
    try:
        finish(me, "x", deque(), segment_id, Lazy(st, M_ST), demarc_stack, False, False,  # noqa: F821
               Lazy(0, M_SM), "", Lazy(0, M_SK), False, capturing_regex, collector_level,
               Lazy(0, M_CO), False, None, False, demarc_count)
    except YAMLPathException:
        return True
    return True


def _validate_cut():
    if _CUT_ERROR:
        return 1, ["outline of _parse_path changed: " + _CUT_ERROR]
    n, problems = astcut.structural_termination()
    # translator validation: the cut functions must replay the repository's own parse results
    bad = []
    texts = ["abc.def", "/a/b[1]", "a[b=c]", "a[b!=~/x y/]", "&anc.k", "a.(b)+(c)-(d)", "x[has_child(y)]",
             "a.'b.c'.d", "a\\.b", "/**/k*", "a[1:2]", "a[.>5]", "[&x]", "a b", "a[!max(p)]"]
    for t in texts:
        for strip in (True, False):
            try:
                want = list(YAMLPath(t)._parse_path(strip))
            except YAMLPathException:
                want = "ERR"
            try:
                got = _drive(t, strip)
            except YAMLPathException:
                got = "ERR"
            if _norm(want) != _norm(got):
                bad.append("cut functions disagree with _parse_path on %r" % t)
            n += 1
    return n, problems + bad


def _norm(segs):
    if segs == "ERR":
        return segs
    return [(str(t), v if isinstance(v, (int, str, type(None))) else (type(v).__name__, str(v))) for t, v in segs]


def _drive(text, strip):
    """Run the cut step/finish over a concrete text (validation of the translator)."""
    me = YAMLPath(text)
    pathsep = str(me.separator)
    first_anchor_pos = 1 if (me.separator is PathSeparators.FSLASH and len(text) > 1) else 0
    state = [deque(), "", None, [], False, False, None, "", None, False, False, 0, CollectorOperators.NONE,
             False, None, text[first_anchor_pos] == "&", 0]
    for i, ch in enumerate(text):
        state = list(step(me, text, pathsep, strip, i, ch, *state))  # noqa: F821
    return list(finish(me, text, *state))  # noqa: F821


VALIDATIONS = [("astcut outline + structural termination + translator replay", _validate_cut)]

_STEP_PARAMS = [("segment_id", "str"), ("st", "int"), ("demarc_stack", "List[str]"), ("escape_next", "bool"),
                ("search_inverted", "bool"), ("sm", "int"), ("search_attr", "str"), ("sk", "int"),
                ("seeking_regex_delim", "bool"), ("capturing_regex", "bool"), ("collector_level", "int"),
                ("co", "int"), ("seeking_collector_operator", "bool"), ("next_char_must_be", "Optional[str]"),
                ("seeking_anchor_mark", "bool"), ("strip_escapes", "bool"), ("fslash", "bool")]
_STEP_ARGS = ", ".join(n for n, _ in _STEP_PARAMS)


def _step_shard(label, char_expr, char_param, sidlen, budget):
    params = ([("char", "str")] if char_param else []) + _STEP_PARAMS
    pre = ["len(segment_id) <= %d and len(search_attr) <= 1 and len(demarc_stack) <= 2" % sidlen,
           "0 <= st < 9 and 0 <= sm < 10 and 0 <= sk < 8 and 0 <= co < 4",
           "inv(demarc_stack, capturing_regex, collector_level, next_char_must_be)"]
    if char_param:
        pre.insert(0, "len(char) == 1 and not_special(char)")
    return shard(PID, "step/" + label, "harness.c14", "step_ok(%s, %s)" % (char_expr, _STEP_ARGS), params, pre,
                 family="step", budget=budget, per_path=30, prelude=["vf.chint"],
                 desc="one iteration of the parser loop on incoming character %s from an arbitrary state" % label,
                 bounds={"segment_id": "str len<=%d any code points" % sidlen, "search_attr": "len<=1",
                         "demarc_stack": "depth<=2", "enum locals": "all members", "flags": "all"})


_NAMES = {"\\": "backslash", " ": "space", "'": "squote", '"': "dquote", "(": "lparen", ")": "rparen",
          "[": "lbracket", "]": "rbracket", "=": "eq", "^": "caret", "$": "dollar", "%": "percent", "!": "bang",
          ">": "gt", "<": "lt", "~": "tilde", "&": "amp", "+": "plus", "-": "minus", ".": "dot", "/": "slash",
          "*": "star", ":": "colon", ",": "comma"}


def shards(tier, seed):
    out = []
    # (a) whole parse
    for m, mname in enumerate(["auto", "dot", "slash"]):
        out.append(shard(PID, "whole/len2/" + mname, "harness.c14", "parse_total(s, %d)" % m, [("s", "str")],
                         ["len(s) <= 2"], family="whole", budget=300, prelude=["vf.chint"],
                         desc="YAMLPath(s) escaped/unescaped/str under separator setting " + mname,
                         bounds={"s": "any code points, len<=2"}))
    if tier == "thorough":
        for c in SPECIALS:
            if c == "[":
                continue
            out.append(shard(PID, "whole/len3/" + _NAMES[c], "harness.c14", "parse_total(%r + t, mode)" % c,
                             [("t", "str"), ("mode", "int")], ["len(t) <= 2", "0 <= mode <= 2"], family="whole",
                             budget=900, prelude=["vf.chint"], desc="texts of length<=3 starting with %r" % c,
                             bounds={"t": "any code points, len<=2"}))
        out.append(shard(PID, "whole/len3/other", "harness.c14", "parse_total(c + t, mode)",
                         [("c", "str"), ("t", "str"), ("mode", "int")],
                         ["len(c) == 1 and not_special(c)", "len(t) <= 2", "0 <= mode <= 2"], family="whole",
                         budget=900, prelude=["vf.chint"],
                         desc="texts of length<=3 starting with any non-syntax character",
                         bounds={"c": "any code point outside the 24 syntax characters", "t": "len<=2"}))
        for c in SPECIALS:
            out.append(shard(PID, "whole/len3/lbracket+" + _NAMES[c], "harness.c14",
                             "parse_total(%r + t, mode)" % ("[" + c), [("t", "str"), ("mode", "int")],
                             ["len(t) <= 1", "0 <= mode <= 2"], family="whole", budget=900, prelude=["vf.chint"],
                             desc="texts of length<=3 starting with %r" % ("[" + c), bounds={"t": "len<=1"}))
        out.append(shard(PID, "whole/len3/lbracket+other", "harness.c14", "parse_total('[' + c + t, mode)",
                         [("c", "str"), ("t", "str"), ("mode", "int")],
                         ["len(c) == 1 and not_special(c)", "len(t) <= 1", "0 <= mode <= 2"], family="whole",
                         budget=900, prelude=["vf.chint"], desc="'[' + non-syntax character + one more"))
    # (b) inductive step
    if _CUT_ERROR is not None and tier == "quick":
        # the loop body can no longer be cut (reported as inconclusive by the validation): fall back to the
        # whole-parse queries of length 3 behind '[' and '(' so that the check still explores the changed parser
        for c in SPECIALS:
            out.append(shard(PID, "whole/len3/lbracket+" + _NAMES[c], "harness.c14",
                             "parse_total(%r + t, mode)" % ("[" + c), [("t", "str"), ("mode", "int")],
                             ["len(t) <= 1", "0 <= mode <= 2"], family="whole", budget=900, prelude=["vf.chint"],
                             desc="fallback: texts of length<=3 starting with %r" % ("[" + c), bounds={"t": "len<=1"}))
        out.append(shard(PID, "whole/len3/lbracket+other", "harness.c14", "parse_total('[' + c + t, mode)",
                         [("c", "str"), ("t", "str"), ("mode", "int")],
                         ["len(c) == 1 and not_special(c)", "len(t) <= 1", "0 <= mode <= 2"], family="whole",
                         budget=900, prelude=["vf.chint"], desc="fallback: '[' + non-syntax character + one more"))
        out.append(shard(PID, "whole/len3/lparen", "harness.c14", "parse_total('(' + t, mode)",
                         [("t", "str"), ("mode", "int")], ["len(t) <= 2", "0 <= mode <= 2"], family="whole", budget=900,
                         prelude=["vf.chint"], desc="fallback: texts of length<=3 starting with '('"))
    if _CUT_ERROR is None:
        quick_chars = ["\\", "'", ")", "=", "&", ".", "/", "[", "]", "(", "!", "~", "*"]
        chars = SPECIALS if tier == "thorough" else quick_chars
        for c in chars:
            sidlen = 2 if c == "(" else 3
            if tier == "quick":
                sidlen = 1 if c in ("(", "]") else 2
            budget = 1800 if c in ("]", "(") else 900
            out.append(_step_shard(_NAMES[c], repr(c), False, sidlen, budget))
        out.append(_step_shard("other", "char", True, 2 if tier == "quick" else 3, 900))
        out.append(shard(PID, "exit", "harness.c14",
                         "finish_ok(segment_id, st, demarc_stack, capturing_regex, collector_level, demarc_count)",
                         [("segment_id", "str"), ("st", "int"), ("demarc_stack", "List[str]"),
                          ("capturing_regex", "bool"), ("collector_level", "int"), ("demarc_count", "int")],
                         ["len(segment_id) <= 3 and len(demarc_stack) <= 2 and 0 <= st < 9",
                          "inv(demarc_stack, capturing_regex, collector_level, None)"], family="exit", budget=600,
                         desc="epilogue of _parse_path from an arbitrary state"))
    return out
