"""C02 - every result locates its node: coordinates, ancestry and reported path re-resolve."""
from ruamel.yaml.comments import CommentedSet

from yamlpath import Processor, YAMLPath
from yamlpath.enums import PathSeparators, PathSegmentTypes, PathSearchKeywords
from yamlpath.exceptions import YAMLPathException
from yamlpath.path import SearchKeywordTerms
from yamlpath.wrappers import NodeCoords

from vf import docs
from vf.common import LOG, cmap, cseq
from vf.shard import shard, note
from harness.qcommon import K, B, mkpath
from harness import c01

PID = "C02"
FILES = ["yamlpath/processor.py", "yamlpath/common/keywordsearches.py", "yamlpath/wrappers/nodecoords.py",
         "yamlpath/yamlpath.py"]
FUNCTIONS = ["Processor.get_nodes and every segment handler (translated path / ancestry construction)",
             "KeywordSearches.has_child/max/min/unique/distinct/parent", "YAMLPath.__add__/append/escape_path_section/"
             "ensure_escaped/__str__", "NodeCoords"]
STUBS = ["logger: real ConsolePrinter(quiet)"]
OUTSIDE = ["virtual results (slices, collectors, name()) designate no single node and are skipped, as the property says",
           "anchors reached through merge keys",
           "shapes/templates outside the catalogues; keys outside the punctuation pool"]
ASSUMPTIONS = ["oracle is the document itself (object identity / equality of the node found at the reported place)"]

KW = {
    "kw_haschild": (lambda i, j: [B("[has_child(p)]")], "[has_child(p)]"),
    "kw_nhaschild": (lambda i, j: [B("[!has_child(p)]")], "[!has_child(p)]"),
    "kw_maxp": (lambda i, j: [B("[max(p)]")], "[max(p)]"),
    "kw_nminp": (lambda i, j: [B("[!min(p)]")], "[!min(p)]"),
    "kw_max": (lambda i, j: [B("[max()]")], "[max()]"),
    "kw_unique": (lambda i, j: [B("[unique()]")], "[unique()]"),
    "kw_distinctp": (lambda i, j: [B("[distinct(p)]")], "[distinct(p)]"),
    "p_parent": (lambda i, j: [K("p"), B("[parent()]")], "p[parent()]"),
    "p_parent2": (lambda i, j: [K("p"), B("[parent(2)]")], "p[parent(2)]"),
    "idx_p_parent": (lambda i, j: [B("[" + str(i) + "]"), K("p"), B("[parent()]")], "[i].p[parent()]"),
    "star_parent": (lambda i, j: [K("*"), B("[parent()]")], "*[parent()]"),
    "p_parent_n": (lambda i, j: [K("p"), B("[parent()]"), K("n")], "p[parent()].n"),
    "desc_parent": (lambda i, j: [B("[d.p>2]"), B("[parent()]")], "[d.p>2][parent()]"),
    "desc_key_parent": (lambda i, j: [B("[d.p>2]"), K("d"), B("[parent()]")], "[d.p>2].d[parent()]"),
    "hoh_desc_parent": (lambda i, j: [B("[x.p>2]"), B("[parent()]")], "[x.p>2][parent()] (descendant search on a hash, then parent)"),
    "hoh_desc_key": (lambda i, j: [B("[x.p>2]"), K("y")], "[x.p>2].y"),
    "deep_desc_parent": (lambda i, j: [K("**"), B("[p>2]"), B("[parent()]")], "**[p>2][parent()]"),
}

# keys containing each character the path syntax defines an escape for
PKEYS = ["a.b", "a/b", "a[b", "a]b", "a(b", "a)b", "a'b", 'a"b', "a b", "a^b", "a$b", "a%b", "a\\b", "a&b"]


def _is_virtual(nc):
    if isinstance(nc.node, NodeCoords):
        return True
    if isinstance(nc.node, list) and len(nc.node) > 0 and isinstance(nc.node[0], NodeCoords):
        return True
    seg = nc.path_segment
    if seg is not None:
        stype, attrs = seg
        if stype == PathSegmentTypes.COLLECTOR:
            return True
        if stype == PathSegmentTypes.INDEX and ":" in str(attrs):
            return True
        if isinstance(attrs, SearchKeywordTerms) and attrs.keyword is PathSearchKeywords.NAME:
            return True
    return False


def _same_obj(x, y):
    return x is y or (not isinstance(x, (dict, list, set, CommentedSet)) and x == y)


def check_result(doc, nc, both):
    """Returns None when fine, else a short reason."""
    node, parent, ref = nc.node, nc.parent, nc.parentref
    if parent is None:
        if not _same_obj(node, doc):
            return "no parent although the node is not the document root"
    elif isinstance(parent, (CommentedSet, set)):
        if node not in parent:
            return "set parent does not contain the node"
    else:
        try:
            if not _same_obj(parent[ref], node):
                return "parent[parentref] is not the node"
        except (KeyError, IndexError, TypeError):
            return "parent[parentref] does not exist"
    # ancestry walks from the root to the node
    anc = nc.ancestry
    if parent is not None:
        if not anc:
            return "empty ancestry for a non-root node"
        if anc[0][0] is not doc:
            return "ancestry does not start at the document root"
        for k in range(len(anc)):
            p, r = anc[k]
            nxt = anc[k + 1][0] if k + 1 < len(anc) else node
            if isinstance(p, (CommentedSet, set)):
                if r not in p:
                    return "ancestry entry %d: set does not contain its reference" % k
                continue
            try:
                if not _same_obj(p[r], nxt):
                    return "ancestry entry %d does not lead to the next entry" % k
            except (KeyError, IndexError, TypeError):
                return "ancestry entry %d: reference does not exist in its parent" % k
        if anc[-1][0] is not parent:
            return "last ancestry entry is not the parent"
    # the reported path re-resolves to exactly this node
    texts = [str(nc.path)]
    if both:
        alt = YAMLPath(nc.path)
        alt.separator = (PathSeparators.DOT if alt.separator is PathSeparators.FSLASH else PathSeparators.FSLASH)
        texts.append(str(alt))
    for t in texts:
        proc2 = Processor(LOG, doc)
        try:
            again = [x for x in proc2.get_nodes(t, mustexist=True)]
        except YAMLPathException:
            return "reported path %r does not resolve" % t
        if any(st is PathSegmentTypes.ANCHOR for (st, _a) in YAMLPath(t).escaped):
            # a path that names the node by its anchor resolves once per place the node is aliased
            if not again or any(x.node is not node for x in again):
                return "reported path %r (by anchor) resolves to something other than the aliased node" % t
            if not any(x.parent is parent and x.parentref == ref for x in again):
                return "reported path %r (by anchor) does not include this place" % t
            continue
        if len(again) != 1:
            return "reported path %r resolves to %d nodes" % (t, len(again))
        if not _same_obj(again[0].node, node) or (again[0].parent is not parent):
            return "reported path %r resolves to a different node" % t
    return None


def _run(doc, path, both=True):
    proc = Processor(LOG, doc)
    try:
        results = [nc for nc in proc.get_nodes(path, mustexist=True)]
    except YAMLPathException:
        results = []
    note(results=len(results))
    for k, nc in enumerate(results):
        if _is_virtual(nc):
            continue
        why = check_result(doc, nc, both)
        if why is not None:
            note(result_index=k, reported_path=str(nc.path), problem=why)
            return False
    return True


def coords_ok(shape: str, template: str, i: int, j: int, a: int, b: int, c: int, slash: bool) -> bool:
    """Every non-virtual result of the query locates its node."""
    if template in KW:
        pieces = KW[template][0](i, j)
    else:
        pieces = c01.TEMPLATES[template][0](i, j)
    doc = docs.build(shape, a, b, c)
    path = mkpath(docs.focus(shape), pieces, slash)
    note(document=docs.describe(shape), leaves=[a, b, c], path=path)
    return _run(doc, path)


def punct_ok(k: int, template: str, a: int, slash: bool) -> bool:
    """Keys holding an escapable character: wildcard / search / deep results report paths that re-resolve."""
    key = PKEYS[k]
    inner = cmap((key, a), ("z", 1))
    doc = cmap(("h", inner), ("l", cseq(cmap((key, a)))))
    path = {"star": "h.*", "deep": "**", "key_sw": "h[.^a]", "aoh_star": "l.*.*", "deep_root": "h.**"}[template]
    if slash:
        path = "/" + path.replace(".*", "/*").replace("h[", "h[").replace("**", "**")
        path = {"star": "/h/*", "deep": "/**", "key_sw": "/h[.^a]", "aoh_star": "/l/*/*", "deep_root": "/h/**"}[template]
    note(key=key, path=path)
    return _run(doc, path)


def punct_kw_ok(k: int, kw: int, a: int, b: int, slash: bool) -> bool:
    """Keyword searches over a hash of hashes whose child keys hold an escapable character."""
    key = PKEYS[k]
    kw = [("max", False), ("min", False), ("max", True), ("min", True), ("unique", False), ("distinct", False),
          ("has_child", False)][kw]
    t = cmap((key, cmap(("p", a))), ("z", cmap(("p", b))), (key + "2", cmap(("q", 1))))
    doc = cmap(("t", t))
    path = ("/t[" if slash else "t[") + ("!" if kw[1] else "") + kw[0] + "(p)]"
    if kw[0] == "has_child":
        path = ("/t/*[" if slash else "t.*[") + "has_child(p)]"
    note(key=key, path=path, leaves=[a, b])
    return _run(doc, path)


_ESCAPABLE = set("\\./()[]^$% '\"&")


def _esc(text):
    return "".join(("\\" + ch if ch in _ESCAPABLE else ch) for ch in text)


def punct_attr_ok(k: int, a: int, b: int, inv: bool, where: int, slash: bool) -> bool:
    """A search on a NAMED attribute whose name holds an escapable character, applied directly to a hash, to an
    Array-of-Hashes and to a hash of hashes (descendant form): the reported path re-resolves to the matched node."""
    key = PKEYS[k]
    op = "!>" if inv else ">"
    if where == 0:
        doc = cmap(("h", cmap((key, a), ("z", b), (key[0], cmap((key[-1], 7))))))
        path = ("/h[" if slash else "h[") + _esc(key) + op + "0]"
    elif where == 1:
        doc = cmap(("w", cseq(cmap((key, a)), cmap((key, b)), cmap(("z", 1)))))
        path = ("/w[" if slash else "w[") + _esc(key) + op + "0]"
    else:
        doc = cmap(("t", cmap(("x", cmap((key, a))), ("y", cmap((key, b))))))
        path = ("/t/*[" if slash else "t.*[") + _esc(key) + op + "0]"
    note(key=key, path=path, leaves=[a, b])
    return _run(doc, path)


def set_member_ok(k: int, slash: bool, via: int) -> bool:
    """A !!set member holding an escapable character, reached by key / wildcard / search, reports a path that re-resolves."""
    from vf.common import cset
    member = PKEYS[k]
    doc = cmap(("hosts", cmap(("prod", cset(member, "plain")))), ("n", 1))
    esc = YAMLPath.escape_path_section(member, PathSeparators.FSLASH if slash else PathSeparators.DOT)
    sep = "/" if slash else "."
    base = ("/hosts/prod" if slash else "hosts.prod")
    path = [base + sep + esc, base + sep + "*", base + "[.^a]"][via]
    note(member=member, path=path)
    return _run(doc, path)


QUICK = [("HOH", "hoh_desc_parent"), ("HOH", "hoh_desc_key"), ("AOHD", "desc_parent"), ("AOHD", "desc_key_parent"), ("HOH", "desc_parent"), ("AOH3", "kw_haschild"), ("AOHX", "kw_nhaschild"), ("AOH3", "p_parent"), ("AOH3", "p"), ("AOHX", "kw_maxp"),
         ("L3", "kw_max"), ("AOH3", "idx_p_parent"), ("HOH", "star_parent"), ("MM", "p_parent"),
         ("AOH3", "p_parent_n"), ("L3", "idx"), ("ML3", "el_gt"), ("AOHX", "at_gt"), ("AOHD", "deep_p"), ("MM", "deep"),
         ("HOH", "star_at"), ("M3", "key_sw"), ("MINT", "k1"), ("LL", "star_idx"), ("AOHD", "at_desc"), ("SET", "p"),
         ("AOHX", "p_el_gt"), ("LMIX", "deep"), ("AOH3", "at_gt_n"), ("HOH", "kw_maxp"), ("AOHX", "kw_distinctp"),
         ("LANC", "anc"), ("MANC", "anc_k"), ("AANC", "anc_n"), ("LANC", "star"), ("AANC", "p")]


def _mk(shape, template, tier):
    if template in KW:
        uses_i = "str(i)" in "idx_p_parent" and template == "idx_p_parent"
        uses_j = False
        tdesc = KW[template][1]
    else:
        _pf, _sf, uses_i, uses_j, tdesc = c01.TEMPLATES[template]
    params, pre = [], []
    if uses_i:
        params.append(("i", "int"))
        pre.append("-4 <= i <= 4")
    if uses_j:
        params.append(("j", "int"))
        pre.append("-4 <= j <= 4")
    params += [("a", "int"), ("b", "int"), ("c", "int"), ("slash", "bool")]
    if "unique" in template or "distinct" in template:
        pre.append("-1 <= a <= 1 and -1 <= b <= 1 and -1 <= c <= 1")
    else:
        pre.append("-9 <= a <= 9 and -9 <= b <= 9 and -9 <= c <= 9")
    call = "coords_ok(%r, %r, %s, %s, a, b, c, slash)" % (shape, template, "i" if uses_i else "0", "j" if uses_j else "0")
    return shard(PID, "loc/%s/%s" % (shape, template), "harness.c02", call, params, pre,
                 family="loc/%s/%s" % (shape, template), budget=900,
                 desc="%s  x  <focus>%s" % (docs.describe(shape), tdesc),
                 bounds={"i,j": "[-4,4]", "a,b,c": "[-9,9]", "slash": "both notations; every reported path is re-queried "
                                                                     "in both notations"})


def shards(tier, seed):
    out = []
    if tier == "quick":
        pairs = QUICK
    else:
        pairs = [p for p in c01.pairs("thorough") if "slice" not in p[1]]
        for s in c01.AOHS + ["HOH", "MM"]:
            pairs += [(s, t) for t in KW if t not in ("kw_max", "kw_unique")]
        for s in ["L3", "ML3", "LNULL", "ML4"]:
            pairs += [(s, "kw_max"), (s, "kw_unique")]
        seen, uniq = set(), []
        for p in pairs + QUICK:
            if p not in seen:
                seen.add(p)
                uniq.append(p)
        pairs = uniq
    for s, t in pairs:
        out.append(_mk(s, t, tier))
    for kw in range(7) if tier == "thorough" else [0, 1, 3]:
        out.append(shard(PID, "punct_kw/%d" % kw, "harness.c02", "punct_kw_ok(k, %d, a, b, slash)" % kw,
                         [("k", "int"), ("a", "int"), ("b", "int"), ("slash", "bool")],
                         ["0 <= k < %d" % len(PKEYS), "-1 <= a <= 1 and -1 <= b <= 1"], family="punct_kw", budget=900,
                         desc="keyword #%d over a hash of hashes whose child keys hold an escapable character" % kw))
    for where in range(3):
        wdesc = ["a hash", "an Array-of-Hashes", "the children of a hash of hashes"][where]
        if tier == "quick" and where > 0:
            out.append(shard(PID, "punct_attr/%d" % where, "harness.c02", "punct_attr_ok(k, a, 1, inv, %d, slash)" % where,
                             [("k", "int"), ("a", "int"), ("inv", "bool"), ("slash", "bool")],
                             ["0 <= k < %d" % len(PKEYS), "-1 <= a <= 1"], family="punct_attr", budget=900,
                             desc="search on a named attribute holding an escapable character, applied to " + wdesc))
            continue
        halves = [(0, len(PKEYS))] if where == 0 else [(0, 5), (5, 10), (10, len(PKEYS))]
        for lo, hi in halves:
            out.append(shard(PID, "punct_attr/%d/%d" % (where, lo), "harness.c02", "punct_attr_ok(k, a, b, inv, %d, slash)" % where,
                             [("k", "int"), ("a", "int"), ("b", "int"), ("inv", "bool"), ("slash", "bool")],
                             ["%d <= k < %d" % (lo, hi), "-1 <= a <= 1 and -1 <= b <= 1"], family="punct_attr", budget=1200,
                             desc="search on a named attribute holding an escapable character, applied to " + wdesc))
    for via in range(3):
        out.append(shard(PID, "set_member/%d" % via, "harness.c02", "set_member_ok(k, slash, %d)" % via,
                         [("k", "int"), ("slash", "bool")], ["0 <= k < %d" % len(PKEYS)], family="set_member", budget=900,
                         kind="S", desc="!!set member with an escapable character via %s" % ["key", "wildcard", "search"][via]))
    pt = ["star", "key_sw", "deep"] if tier == "quick" else ["star", "deep", "key_sw", "aoh_star", "deep_root"]
    for t in pt:
        out.append(shard(PID, "punct/%s" % t, "harness.c02", "punct_ok(k, %r, a, slash)" % t,
                         [("k", "int"), ("a", "int"), ("slash", "bool")], ["0 <= k < %d" % len(PKEYS), "-9 <= a <= 9"],
                         family="punct/%s" % t, budget=900, kind="S",
                         desc="keys with each escapable character (selector over %d keys), template %s" % (len(PKEYS), t)))
    return out
