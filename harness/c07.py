"""C07 - yaml-paths search is sound and complete, and every printed path resolves."""
from crosshair import realize
from ruamel.yaml.scalarstring import PlainScalarString

import yamlpath.commands.yaml_paths as yp
from yamlpath import Processor
from yamlpath.enums import PathSeparators, PathSearchMethods
from yamlpath.exceptions import YAMLPathException
from yamlpath.eyaml import EYAMLProcessor
from yamlpath.path import SearchTerms

from vf.common import LOG, cmap, cseq
from vf.model_query import match_scalar, Undefined
from vf.shard import shard, note

PID = "C07"
FILES = ["yamlpath/commands/yaml_paths.py", "yamlpath/common/searches.py", "yamlpath/yamlpath.py", "yamlpath/processor.py"]
FUNCTIONS = ["yaml_paths.search_for_paths", "yaml_paths.yield_children", "yaml_paths.get_search_term",
             "Searches.search_matches", "Searches.search_anchor", "YAMLPath.escape_path_section",
             "Processor.get_nodes (re-query of every reported path, both notations)",
             "yaml_paths.main/process_yaml_file/print_results (stream queries; condition shared with C16)"]
STUBS = ["EYAMLProcessor is constructed but never decrypts (decrypt_eyaml=False)", "no file loading (search_for_paths is "
         "called directly on harness documents; the stream queries run main() over a loader stub)"]
OUTSIDE = ["regular-expression terms and symbolic terms (engine limits): operators with concrete terms",
           "alias shards are selector-driven (anchored scalars are C-constructed)"]
ASSUMPTIONS = ["oracle: matching leaves/keys computed with the C12 reference comparison; re-resolution against the document itself"]

M = PathSearchMethods
OPS = {"=": M.EQUALS, ">": M.GREATER_THAN, "<": M.LESS_THAN, ">=": M.GREATER_THAN_OR_EQUAL, "<=": M.LESS_THAN_OR_EQUAL,
       "^": M.STARTS_WITH, "$": M.ENDS_WITH, "%": M.CONTAINS}

SHAPES = {
    "mixed": (lambda a, b, c: cmap(("k", a), ("l", cseq(b, c)), ("h", cmap(("p", a), ("q", cseq(c))))),
              "{k: a, l: [b, c], h: {p: a, q: [c]}}"),
    "aoh": (lambda a, b, c: cmap(("w", cseq(cmap(("n", a), ("p", b)), cmap(("n", c))))), "{w: [{n: a, p: b}, {n: c}]}"),
    "punct": (lambda a, b, c: cmap(("a.b", a), ("c/d", cmap(("e f", b), ("g[h", c)))), "keys with . / space ["),
    "rootlist": (lambda a, b, c: cseq(a, cseq(b), cmap(("p", c))), "[a, [b], {p: c}]"),
}


def _walk(node, parent, ref, out_leaves, out_keys):
    if isinstance(node, dict):
        for k, v in node.items():
            out_keys.append((node, k, v))
            _walk(v, node, k, out_leaves, out_keys)
    elif isinstance(node, list):
        for i, v in enumerate(node):
            _walk(v, node, i, out_leaves, out_keys)
    else:
        out_leaves.append((parent, ref, node))


def search_ok(shape: str, op: str, term: str, inv: bool, mode: int, expand: bool, slash: bool,
              a: int, b: int, c: int) -> bool:
    """Reported paths = the matching values (and/or keys), each once; every path re-resolves to that node."""
    doc = SHAPES[shape][0](a, b, c)
    search_values = mode in (0, 1)
    search_keys = mode in (1, 2)
    terms = SearchTerms(inv, OPS[op], ".", term)
    sep = PathSeparators.FSLASH if slash else PathSeparators.DOT
    note(document=SHAPES[shape][1], leaves=[a, b, c], expression=("!" if inv else "") + op + term,
         mode=["values", "values+keys", "keys"][mode], expand=expand, notation="slash" if slash else "dot")
    paths = [p for p in yp.search_for_paths(LOG, EYAMLProcessor(LOG, doc), doc, terms, sep,
                                            search_values=search_values, search_keys=search_keys,
                                            expand_children=expand)]
    final = []

    def leaves_below(node, parent, ref):
        if isinstance(node, (dict, list)):
            sub_l, _sk = [], []
            _walk(node, parent, ref, sub_l, _sk)
            return [(pp, rr) for (pp, rr, _n) in sub_l]
        return [(parent, ref)]

    def model(node):
        """Definitional walk: a matching key stands for everything below it; otherwise descend / test the value."""
        if isinstance(node, dict):
            for k, v in node.items():
                if search_keys and (match_scalar(op, term, k) != inv):
                    final.extend(leaves_below(v, node, k) if expand else [(node, k)])
                    continue
                if isinstance(v, (dict, list)):
                    model(v)
                elif search_values and (match_scalar(op, term, v) != inv):
                    final.append((node, k))
        elif isinstance(node, list):
            for i, v in enumerate(node):
                if isinstance(v, (dict, list)):
                    model(v)
                elif search_values and (match_scalar(op, term, v) != inv):
                    final.append((node, i))

    try:
        model(doc)
    except Undefined:
        return True
    got = []
    proc = Processor(LOG, doc)
    for path in paths:
        try:
            res = [nc for nc in proc.get_nodes(str(path), mustexist=True)]
        except YAMLPathException:
            note(problem="reported path %r does not resolve" % str(path))
            return False
        if len(res) != 1:
            note(problem="reported path %r resolves to %d nodes" % (str(path), len(res)))
            return False
        got.append((res[0].parent, res[0].parentref))
    note(reported=[str(p) for p in paths], expected_count=len(final))
    if len(got) != len(final):
        return False
    for (p, r) in final:
        n = 0
        for (gp, gr) in got:
            if gp is p and gr == r:
                n += 1
        if n != 1:
            note(problem="position %r reported %d times" % (r, n))
            return False
    return True


def alias_ok(k: int) -> bool:
    """Aliased repeats of an anchored scalar are reported only when the alias options ask for them."""
    k = realize(k)
    incl, k = k % 2, k // 2
    matchv, k = k % 2, k // 2
    inv = k % 2
    anc = PlainScalarString("hit" if matchv else "miss", anchor="anc")
    doc = cmap(("a", anc), ("b", anc), ("l", cseq(anc, "hit")), ("c", "hit"))
    terms = SearchTerms(bool(inv), M.EQUALS, ".", "hit")
    paths = [str(p) for p in yp.search_for_paths(LOG, EYAMLProcessor(LOG, doc), doc, terms, PathSeparators.DOT,
                                                 search_values=True, search_keys=False,
                                                 include_value_aliases=bool(incl))]
    note(include_value_aliases=bool(incl), anchored_value=str(anc), inverted=bool(inv), reported=paths)
    hit = (matchv == 1) != (inv == 1)
    plain_hit = not inv
    want = []
    if hit:
        want.append("a")
        if incl:
            want += ["b", "l[&anc]"]
    if plain_hit:
        want += ["l[1]", "c"]
    proc = Processor(LOG, doc)
    for p in paths:
        res = [nc.node for nc in proc.get_nodes(p, mustexist=True)]
        if not res or any(str(n) != str(res[0]) for n in res):
            return False
    return sorted(paths) == sorted(want)


def alias_keys_ok(k: int) -> bool:
    """Key-name search on: an alias of an anchored value that sits under a matching key is still an alias."""
    k = realize(k)
    incl, k = k % 2, k // 2
    keymatch, k = k % 2, k // 2
    order = k % 2
    anc = PlainScalarString("common_name", anchor="nm")
    first = cmap(("name" if keymatch else "zzz", anc))
    second = cmap(("label", anc), ("other", "a_name_too"))
    doc = cmap(("s", first), ("o", second)) if order == 0 else cmap(("o0", cmap(("plain", "x"))), ("s", first), ("o", second))
    terms = SearchTerms(False, M.CONTAINS, ".", "name")
    paths = [str(p) for p in yp.search_for_paths(LOG, EYAMLProcessor(LOG, doc), doc, terms, PathSeparators.DOT,
                                                 search_values=True, search_keys=True,
                                                 include_value_aliases=bool(incl))]
    note(include_value_aliases=bool(incl), key_matches=bool(keymatch), reported=paths)
    # the anchored value matches by value as well; its alias under o.label is reported only when aliases are included
    want = ["s.name" if keymatch else "s.zzz", "o.other"] + (["o.label"] if incl else [])
    return sorted(paths) == sorted(want)


def merge_keys_ok(k: int) -> bool:
    """YAML merge keys (<<: *anchor): merged-in keys are aliased repeats - reported only when an alias option asks."""
    from ruamel.yaml.comments import CommentedMap
    k = realize(k)
    ika, k = k % 2, k // 2
    iva, k = k % 2, k // 2
    keys = k % 2
    base = CommentedMap([("k", "v"), ("z", "w")])
    base.yaml_set_anchor("b", always_dump=True)
    under_list = CommentedMap([("own", "v")])
    under_list.add_yaml_merge([(0, base)])
    deep = CommentedMap([("mine", "v")])
    deep.add_yaml_merge([(0, base)])
    top = CommentedMap([("t", "x")])
    top.add_yaml_merge([(0, base)])
    doc = cmap(("base", base), ("items", cseq(under_list, cmap(("deep", cseq(deep))))), ("top", top))
    terms = SearchTerms(False, M.EQUALS, ".", "k" if keys else "v")
    paths = [str(p) for p in yp.search_for_paths(LOG, EYAMLProcessor(LOG, doc), doc, terms, PathSeparators.DOT,
                                                 search_values=not keys, search_keys=bool(keys),
                                                 include_key_aliases=bool(ika), include_value_aliases=bool(iva))]
    note(include_key_aliases=bool(ika), include_value_aliases=bool(iva), search="keys" if keys else "values", reported=paths)
    own = ["base.k"] if keys else ["base.k", "items[0].own", "items[1].deep[0].mine"]
    merged = ["items[0].k", "items[1].deep[0].k", "top.k"]
    if not ika and not iva:
        return sorted(paths) == sorted(own)
    # an alias option is on: the merged repeats are included at every merging hash - under lists and under hashes alike
    got_merged = [p for p in paths if p in merged]
    return all(p in paths for p in own) and (len(got_merged) == 0 or sorted(got_merged) == sorted(merged))


def expression_ok(k: int) -> bool:
    """get_search_term turns an operator expression into the corresponding search terms."""
    k = realize(k)
    cases = [("=abc", False, M.EQUALS, "abc"), ("!=abc", True, M.EQUALS, "abc"), ("^ab", False, M.STARTS_WITH, "ab"),
             ("$bc", False, M.ENDS_WITH, "bc"), ("%b", False, M.CONTAINS, "b"), (">5", False, M.GREATER_THAN, "5"),
             ("<5", False, M.LESS_THAN, "5"), (">=5", False, M.GREATER_THAN_OR_EQUAL, "5"),
             ("<=5", False, M.LESS_THAN_OR_EQUAL, "5"), ("!>5", True, M.GREATER_THAN, "5"), ("=~/^a/", False, M.REGEX, "^a"),
             ("==x", False, M.EQUALS, "x")]
    expr, inv, method, term = cases[k]
    t = yp.get_search_term(LOG, expr)
    note(expression=expr, parsed=str(t))
    return t is not None and t.inverted == inv and t.method == method and t.term == term


N_EXPR = 12


def shards(tier, seed):
    out = []
    leaves = "-9 <= a <= 9 and -9 <= b <= 9 and -9 <= c <= 9"
    cases = [("mixed", ">", "3"), ("mixed", "=", "2"), ("aoh", "<=", "0"), ("rootlist", ">", "3"), ("punct", "<", "1")]
    kcases = [("punct", "^", "a"), ("mixed", "=", "p"), ("aoh", "$", "n"), ("punct", "%", " ")]
    if tier == "thorough":
        cases += [("mixed", "<", "-1"), ("mixed", ">=", "0"), ("mixed", "^", "-"), ("mixed", "$", "1"), ("mixed", "%", "1"),
                  ("aoh", ">", "3"), ("aoh", "=", "x"), ("rootlist", "=", "2"), ("punct", ">=", "5"), ("rootlist", "%", "1")]
        kcases += [("mixed", "^", "h"), ("mixed", ">", "k"), ("aoh", "=", "w"), ("punct", "=", "a.b"), ("rootlist", "=", "p")]
    for shape, op, term in cases:
        out.append(shard(PID, "values/%s/%s%s" % (shape, {">": "gt", "<": "lt", "=": "eq", ">=": "ge", "<=": "le", "^": "sw",
                                                          "$": "ew", "%": "has"}[op], term.replace("-", "m")),
                         "harness.c07", "search_ok(%r, %r, %r, inv, 0, %s, slash, a, b, c)" % (
                             shape, op, term, "expand" if tier == "thorough" else "False"),
                         [("inv", "bool")] + ([("expand", "bool")] if tier == "thorough" else []) +
                         [("slash", "bool"), ("a", "int"), ("b", "int"), ("c", "int")],
                         [leaves], family="values/%s" % shape, budget=900,
                         desc="%s  values %s %s" % (SHAPES[shape][1], op, term)))
    for shape, op, term in kcases:
        for mode in (1, 2):
            out.append(shard(PID, "keys/%s/%s_%s_m%d" % (shape, {"^": "sw", "=": "eq", "$": "ew", "%": "has", ">": "gt"}[op],
                                                         "".join(ch if ch.isalnum() else "_" for ch in term), mode),
                             "harness.c07", "search_ok(%r, %r, %r, inv, %d, expand, slash, a, b, c)" % (shape, op, term, mode),
                             [("inv", "bool"), ("expand", "bool"), ("slash", "bool"), ("a", "int"), ("b", "int"), ("c", "int")],
                             ["0 <= a <= 1 and 0 <= b <= 1 and 0 <= c <= 1"], family="keys/%s" % shape, budget=900,
                             desc="%s  %s %s %r" % (SHAPES[shape][1], ["", "values+keys", "keys only"][mode], op, term)))
    out.append(shard(PID, "alias", "harness.c07", "alias_ok(k)", [("k", "int")], ["0 <= k < 8"], family="alias", budget=600,
                     kind="S", desc="anchored scalar with two aliases x include_value_aliases x value matches x inverted"))
    out.append(shard(PID, "alias_keys", "harness.c07", "alias_keys_ok(k)", [("k", "int")], ["0 <= k < 8"], family="alias", budget=600,
                     kind="S", desc="anchored value under a (non-)matching key, alias elsewhere, key-name search on"))
    out.append(shard(PID, "merge_keys", "harness.c07", "merge_keys_ok(k)", [("k", "int")], ["0 <= k < 8"], family="alias", budget=600,
                     kind="S", desc="<<: merge keys under a hash, under a list and deeper x alias options x values/keys"))
    for two, exc in ((False, False), (True, True)):
        out.append(shard(PID, "stream/%s" % ("two_except" if two else "one"), "harness.c16",
                         "paths_main(a, b, c, values, nofile, %r, %r, slash, 2)" % (two, exc),
                         [("a", "int"), ("b", "int"), ("c", "int"), ("values", "bool"), ("nofile", "bool"), ("slash", "bool")],
                         ["0 <= a <= 1 and 1 <= b <= 2 and 1 <= c <= 2"], family="stream", budget=1800,
                         desc="yaml-paths main()/process_yaml_file over a 2-document stream (loader stub): every document's matches are "
                              "reported, once each, also when their paths are spelled like an earlier document's"))
    out.append(shard(PID, "expression", "harness.c07", "expression_ok(k)", [("k", "int")], ["0 <= k < %d" % N_EXPR],
                     family="expression", budget=300, kind="S", desc="get_search_term on %d operator expressions" % N_EXPR))
    return out
