"""Path template catalogue shared by the query properties (C01, C02, C09, C15).

A template yields the path *relative to a shape's focus collection* as a list of pieces:
("k", text) = a key-like piece that needs a separator in front, ("b", text) = a bracket piece that
attaches directly.  `i` and `j` are the symbolic integers of the condition.
"""
from vf import docs


def K(t):
    return ("k", t)


def B(t):
    return ("b", t)


def mkpath(focus, pieces, slash):
    """Render focus (dot notation keys, no escapes needed) + pieces in dot or slash notation."""
    sep = "/" if slash else "."
    out = ""
    first = True
    if focus:
        for part in focus.split("."):
            out += (sep if (slash or not first) else "") + part
            first = False
    for kind, text in pieces:
        if kind == "k":
            out += (sep if (slash or not first) else "") + text
        else:
            if first and slash:
                out += sep
            out += text
        first = False
    if out == "" and slash:
        out = "/"
    return out


# name -> (function(i, j) -> pieces, uses_i, uses_j, description)
TEMPLATES = {
    "idx": (lambda i, j: [B("[" + str(i) + "]")], True, False, "[i]"),
    "barekey": (lambda i, j: [K(str(i))], True, False, "bare integer key i"),
    "slice": (lambda i, j: [B("[" + str(i) + ":" + str(j) + "]")], True, True, "[i:j]"),
    "idx_key": (lambda i, j: [B("[" + str(i) + "]"), K("p")], True, False, "[i].p"),
    "idx_idx": (lambda i, j: [B("[" + str(i) + "]"), B("[" + str(j) + "]")], True, True, "[i][j]"),
    "slice_key": (lambda i, j: [B("[" + str(i) + ":" + str(j) + "]"), K("p")], True, True, "[i:j].p"),
    "key_p": (lambda i, j: [K("p")], False, False, "p"),
    "key_p_p": (lambda i, j: [K("d"), K("p")], False, False, "d.p"),
    "key_missing": (lambda i, j: [K("nope")], False, False, "nope"),
    "key_1": (lambda i, j: [K("1")], False, False, "key '1'"),
    "hslice": (lambda i, j: [B("[a:q]")], False, False, "[a:q] (hash key range)"),
    "s_eq_x": (lambda i, j: [B("[.=x]")], False, False, "[.=x]"),
    "s_eq_i": (lambda i, j: [B("[.=" + str(i) + "]")], True, False, "[.=i]"),
    "s_gt_3": (lambda i, j: [B("[.>3]")], False, False, "[.>3]"),
    "s_ngt_3": (lambda i, j: [B("[.!>3]")], False, False, "[.!>3]"),
    "s_le_i": (lambda i, j: [B("[.<=" + str(i) + "]")], True, False, "[.<=i]"),
    "s_lt_txt": (lambda i, j: [B("[.<m]")], False, False, "[.<m]"),
    "s_sw_a": (lambda i, j: [B("[.^a]")], False, False, "[.^a]"),
    "s_ew_b": (lambda i, j: [B("[.$b]")], False, False, "[.$b]"),
    "s_has_b": (lambda i, j: [B("[.%b]")], False, False, "[.%b]"),
    "s_re": (lambda i, j: [B("[.=~/^[a-z]+$/]")], False, False, "[.=~/^[a-z]+$/]"),
    "s_badre": (lambda i, j: [B("[.=~/(/]")], False, False, "[.=~/(/] (invalid regular expression)"),
    "a_eq_1": (lambda i, j: [B("[p=1]")], False, False, "[p=1]"),
    "a_gt_2": (lambda i, j: [B("[p>2]")], False, False, "[p>2]"),
    "a_ngt_2": (lambda i, j: [B("[p!>2]")], False, False, "[p!>2]"),
    "a_ge_i": (lambda i, j: [B("[p>=" + str(i) + "]")], True, False, "[p>=i]"),
    "a_desc": (lambda i, j: [B("[d.p>2]")], False, False, "[d.p>2] (descendant attribute)"),
    "a_badre": (lambda i, j: [B("[p=~/(/]")], False, False, "[p=~/(/]"),
    "kw_max": (lambda i, j: [B("[max()]")], False, False, "[max()]"),
    "kw_maxp": (lambda i, j: [B("[max(p)]")], False, False, "[max(p)]"),
    "kw_nmaxp": (lambda i, j: [B("[!max(p)]")], False, False, "[!max(p)]"),
    "kw_min": (lambda i, j: [B("[min()]")], False, False, "[min()]"),
    "kw_minp": (lambda i, j: [B("[min(p)]")], False, False, "[min(p)]"),
    "kw_unique": (lambda i, j: [B("[unique()]")], False, False, "[unique()]"),
    "kw_nunique": (lambda i, j: [B("[!unique()]")], False, False, "[!unique()]"),
    "kw_uniquep": (lambda i, j: [B("[unique(p)]")], False, False, "[unique(p)]"),
    "kw_distinct": (lambda i, j: [B("[distinct()]")], False, False, "[distinct()]"),
    "kw_distinctp": (lambda i, j: [B("[distinct(p)]")], False, False, "[distinct(p)]"),
    "kw_haschild": (lambda i, j: [B("[has_child(p)]")], False, False, "[has_child(p)]"),
    "kw_nhaschild": (lambda i, j: [B("[!has_child(p)]")], False, False, "[!has_child(p)]"),
    "kw_haschild0": (lambda i, j: [B("[has_child()]")], False, False, "[has_child()] (missing parameter)"),
    "kw_parent": (lambda i, j: [B("[parent()]")], False, False, "[parent()]"),
    "kw_parent_i": (lambda i, j: [B("[parent(" + str(i) + ")]")], True, False, "[parent(i)]"),
    "kw_idx_parent_j": (lambda i, j: [B("[" + str(i) + "]"), B("[parent(" + str(j) + ")]")], True, True, "[i][parent(j)]"),
    "kw_name": (lambda i, j: [B("[name()]")], False, False, "[name()]"),
    "kw_idx_name": (lambda i, j: [B("[" + str(i) + "]"), B("[name()]")], True, False, "[i][name()]"),
    "kw_max2": (lambda i, j: [B("[max(p, q)]")], False, False, "[max(p, q)] (too many parameters)"),
    "star": (lambda i, j: [K("*")], False, False, "*"),
    "star_key": (lambda i, j: [K("*"), K("p")], False, False, "*.p"),
    "star_idx": (lambda i, j: [K("*"), B("[" + str(i) + "]")], True, False, "*[i]"),
    "star_search": (lambda i, j: [K("*"), B("[p>2]")], False, False, "*[p>2]"),
    "deep": (lambda i, j: [K("**")], False, False, "**"),
    "deep_key": (lambda i, j: [K("**"), K("p")], False, False, "**.p"),
    "deep_idx": (lambda i, j: [K("**"), B("[" + str(i) + "]")], True, False, "**[i]"),
    "deep_search": (lambda i, j: [K("**"), B("[.>2]")], False, False, "**[.>2]"),
    "deep_deep": (lambda i, j: [K("**"), K("**")], False, False, "**.** (refused)"),
    "glob_pre": (lambda i, j: [K("p*")], False, False, "p* (prefix wildcard key)"),
    "glob_suf": (lambda i, j: [K("*b")], False, False, "*b (suffix wildcard key)"),
    "anchor": (lambda i, j: [K("&anc")], False, False, "&anc"),
    "anchor_b": (lambda i, j: [B("[&anc]")], False, False, "[&anc]"),
    "coll_add": (lambda i, j: [B("([" + str(i) + "])+([" + str(j) + "])")], True, True, "([i])+([j])"),
    "coll_sub": (lambda i, j: [B("(*)-([" + str(i) + "])")], True, False, "(*)-([i])"),
    "coll_and": (lambda i, j: [B("(*)&([" + str(i) + ":" + str(j) + "])")], True, True, "(*)&([i:j])"),
}


def path_for(shape, template, i, j, slash):
    fn = TEMPLATES[template][0]
    return mkpath(docs.focus(shape), fn(i, j), slash)
