"""C18 - multi-document merges combine documents as the selected mode defines."""
import copy
from types import SimpleNamespace

from crosshair import realize

import yamlpath.commands.yaml_merge as ym
from yamlpath.merger import Merger, MergerConfig

from vf.common import LOG, cmap, cseq
from vf.shard import shard, note
from harness.c05 import to_plain

PID = "C18"
FILES = ["yamlpath/commands/yaml_merge.py", "yamlpath/merger/merger.py", "yamlpath/merger/mergerconfig.py",
         "yamlpath/merger/enums/multidocmodes.py"]
FUNCTIONS = ["yaml_merge.merge_condense_all", "yaml_merge.merge_across", "yaml_merge.merge_matrix", "(incl. their failure states)",
             "Merger.merge_with (pairwise step, default policies)"]
STUBS = ["document loading (get_doc_mergers / ruamel) is replaced by Mergers built directly from harness documents"]
OUTSIDE = ["streams longer than the stated lengths; policies other than the defaults (C05 covers the pairwise step)",
           "documents other than the small hash documents of the harness; real multi-document YAML text"]
ASSUMPTIONS = ["pairwise model: deep hash merge, arrays concatenate, right scalars override (the C05 defaults)"]


def _cp(x):
    """Structural copy (containers copied, scalar leaves shared: symbolic leaves must not be realised)."""
    if isinstance(x, dict):
        return {k: _cp(v) for k, v in x.items()}
    if isinstance(x, list):
        return [_cp(v) for v in x]
    return x


def pmerge(l, r):
    """Pure reference merge of plain data under the default policies (never mutates its arguments)."""
    if r is None:
        return _cp(l)
    if l is None:
        return _cp(r)
    if isinstance(l, dict) and isinstance(r, dict):
        out = {k: _cp(v) for k, v in l.items()}
        for k, v in r.items():
            if k in out:
                out[k] = pmerge(out[k], v)
            else:
                out[k] = _cp(v)
        return out
    if isinstance(l, list) and isinstance(r, list):
        return _cp(l) + _cp(r)
    return _cp(r)


def _ldoc(i, v, empty):
    if empty:
        return None
    if i % 2 == 0:
        return cmap(("x", v), ("n", i))
    return cmap(("x", v), ("h", cmap(("p", i))), ("n", i))


def _rdoc(j, v, empty):
    if empty:
        return None
    if j % 2 == 0:
        return cmap(("h", cmap(("q", v))), ("l", cseq(v)))
    return cmap(("h", cmap(("r", v), ("q", j))), ("l", cseq(j)), ("x", v))


def multidoc(mode: str, nl: int, nr: int, a: int, b: int, c: int, d: int, el: int, er: int) -> bool:
    """Number, order and content of the output documents equal the fold the mode defines."""
    if el >= 0 or er >= 0:
        # an empty left document makes Merger stringify the whole right-hand document (Nodes.typed_value):
        # enumerate the (small) leaf domain up front
        a, b, c, d = realize(a), realize(b), realize(c), realize(d)
    leaves_l = [a, b, a, b][:nl]
    leaves_r = [c, d, c, d][:nr]
    ldocs = [_ldoc(i, leaves_l[i], i == el) for i in range(nl)]
    rdocs = [_rdoc(j, leaves_r[j], j == er) for j in range(nr)]
    pl = [to_plain(x) for x in ldocs]
    pr = [to_plain(x) for x in rdocs]
    cfg = MergerConfig(LOG, SimpleNamespace(config=None, mergeat="/"))
    lhs = [Merger(LOG, x, cfg) for x in ldocs]
    rhs = [Merger(LOG, x, cfg) for x in rdocs]
    note(mode=mode, lhs=pl, rhs=pr)
    if mode == "condense":
        rc = ym.merge_condense_all(LOG, lhs, rhs)
        acc = pl[0]
        for x in pl[1:] + pr:
            acc = pmerge(acc, x)
        want = [acc]
    elif mode == "across":
        rc = ym.merge_across(LOG, lhs, rhs)
        want = []
        for i in range(max(nl, nr)):
            if i < nl and i < nr:
                want.append(pmerge(pl[i], pr[i]))
            elif i < nl:
                want.append(_cp(pl[i]))
            else:
                want.append(_cp(pr[i]))
    else:
        rc = ym.merge_matrix(LOG, lhs, rhs)
        want = []
        for x in pl:
            acc = x
            for y in pr:
                acc = pmerge(acc, y)
            want.append(acc)
    got = [to_plain(m.data) for m in lhs]
    note(return_code=rc, got=got, expected=want)
    if rc != 0:
        return False
    if len(got) != len(want):
        return False
    for g, w in zip(got, want):
        if g != w:
            return False
        if isinstance(g, dict) and isinstance(w, dict) and not _keys_ok(g, w):
            return False
    return True


def multidoc_fail(mode: str, nl: int, nr: int, jr: int, il: int, a: int) -> bool:
    """A refused pairwise merge anywhere in the streams is reported by a non-zero state, whatever follows it."""
    ldocs = [cmap(("h", cseq(i)), ("n", i)) if i == il else cmap(("h", cmap(("p", a))), ("n", i)) for i in range(nl)]
    rdocs = [cmap(("h", cseq(j))) if j == jr else cmap(("h", cmap(("q", j)))) for j in range(nr)]
    cfg = MergerConfig(LOG, SimpleNamespace(config=None, mergeat="/"))
    lhs = [Merger(LOG, x, cfg) for x in ldocs]
    rhs = [Merger(LOG, x, cfg) for x in rdocs]
    fn = {"condense": ym.merge_condense_all, "across": ym.merge_across, "matrix": ym.merge_matrix}[mode]
    rc = fn(LOG, lhs, rhs)
    if mode == "condense":
        refused = jr >= 0 or il >= 1
    elif mode == "across":
        refused = 0 <= jr < nl
    else:
        refused = jr >= 0
    note(mode=mode, left=[to_plain(x) for x in ldocs], right=[to_plain(x) for x in rdocs], return_code=rc,
         a_pairwise_merge_is_refused=refused)
    return (rc != 0) == refused


def multidoc_fail_left(mode: str, nl: int, nr: int, ml: int, a: int) -> bool:
    """Refusals that depend on the LEFT document: a later successful merge must not clear an earlier failure."""
    ml = realize(ml)
    is_arr = [bool((ml >> i) & 1) for i in range(nl)]
    ldocs = [cmap(("h", cseq(a)), ("n", i)) if is_arr[i] else cmap(("h", cmap(("p", a))), ("n", i)) for i in range(nl)]
    rdocs = [cmap(("h", cseq(j))) for j in range(nr)]
    cfg = MergerConfig(LOG, SimpleNamespace(config=None, mergeat="/"))
    lhs = [Merger(LOG, x, cfg) for x in ldocs]
    rhs = [Merger(LOG, x, cfg) for x in rdocs]
    rc = (ym.merge_across if mode == "across" else ym.merge_matrix)(LOG, lhs, rhs)
    if mode == "across":
        refused = any(not is_arr[i] for i in range(min(nl, nr)))
    else:
        refused = any(not x for x in is_arr)
    note(mode=mode, left=[to_plain(x) for x in ldocs], right=[to_plain(x) for x in rdocs], return_code=rc,
         a_pairwise_merge_is_refused=refused)
    return (rc != 0) == refused


def _keys_ok(g, w):
    return set(g.keys()) == set(w.keys())


def shards(tier, seed):
    out = []
    lens = [(1, 1), (1, 2), (2, 1), (2, 2), (3, 1), (3, 2)] if tier == "quick" else [(i, j) for i in range(1, 5) for j in range(1, 5)]
    for mode in ("condense", "across", "matrix"):
        for nl, nr in lens:
            variants = [("full", -1, -1, "-9 <= a <= 9 and -9 <= b <= 9 and -9 <= c <= 9 and -9 <= d <= 9", "[-9,9]")]
            small = "0 <= a <= 1 and 0 <= b <= 1 and 0 <= c <= 1 and 0 <= d <= 1"
            empties = [(0, -1), (-1, 0)] + ([(nl - 1, nr - 1)] if tier == "thorough" else [])
            if nr > 1:
                empties.append((-1, nr - 1))      # an empty LAST right-hand document (a surplus one when nr > nl)
            for el, er in empties:
                variants.append(("empty_l%d_r%d" % (el, er), el, er, small, "[0,1] (enumerated)"))
            for vname, el, er, lpre, ldesc in variants:
                out.append(shard(PID, "%s/%dx%d/%s" % (mode, nl, nr, vname), "harness.c18",
                                 "multidoc(%r, %d, %d, a, b, c, d, %d, %d)" % (mode, nl, nr, el, er),
                                 [("a", "int"), ("b", "int"), ("c", "int"), ("d", "int")], [lpre], family="%s" % mode,
                                 budget=900,
                                 desc="%s: %d left x %d right documents; empty document at left %d / right %d (-1 = none)" % (
                                     mode, nl, nr, el, er),
                                 bounds={"a..d": ldesc}))
    for mode in ("condense", "across", "matrix"):
        out.append(shard(PID, "%s/refused" % mode, "harness.c18", "multidoc_fail(%r, nl, nr, jr, il, a)" % mode,
                         [("nl", "int"), ("nr", "int"), ("jr", "int"), ("il", "int"), ("a", "int")],
                         ["1 <= nl <= 3 and 1 <= nr <= 3", "-1 <= jr < nr", "il == -1" if mode != "condense" else "(il == -1 or 1 <= il < nl)",
                          "-9 <= a <= 9"], family=mode, budget=900,
                         desc="%s: one document (symbolic position, either stream) cannot be merged (array into hash): the "
                              "state is non-zero exactly when a pairwise merge is refused, wherever it sits" % mode))
    for mode in ("across", "matrix"):
        out.append(shard(PID, "%s/refused_left" % mode, "harness.c18", "multidoc_fail_left(%r, nl, nr, ml, a)" % mode,
                         [("nl", "int"), ("nr", "int"), ("ml", "int"), ("a", "int")],
                         ["1 <= nl <= 3 and 1 <= nr <= 2", "0 <= ml < 8", "-9 <= a <= 9"], family=mode, budget=900,
                         desc="%s: every right document holds an array where SOME left documents (symbolic subset) hold a hash: "
                              "the state is non-zero exactly when some pairwise merge is refused, also when later ones succeed" % mode))
    return out
