"""C11 - a merge aimed at a path changes only what lies under that path."""
from types import SimpleNamespace

from crosshair import realize

from yamlpath.merger import Merger, MergerConfig
from yamlpath.merger.exceptions import MergeException
from yamlpath.exceptions import YAMLPathException

from vf.common import LOG, cmap, cseq
from vf.shard import shard, note
from harness.c05 import to_plain
from harness.c18 import pmerge, _cp

PID = "C11"
FILES = ["yamlpath/merger/merger.py", "yamlpath/merger/mergerconfig.py", "yamlpath/processor.py", "yamlpath/yamlpath.py"]
FUNCTIONS = ["Merger.merge_with (args.mergeat set)", "Merger._get_merge_target_nodes", "Merger._insert_dict/_insert_list/_insert_scalar",
             "MergerConfig.get_insertion_point/prepare", "Processor.get_nodes (optional match seeded with the right-hand document)",
             "yaml_merge.main/merge_docs/merge_condense_all/merge_across/merge_matrix/write_output_document (write-out clause)"]
STUBS = ["logger: real ConsolePrinter(quiet)", "write-out clause: loader stub, in-memory FS and argv namespace as in C17; yaml_merge.write_output_document is "
         "replaced by a recorder (the writer itself is C17's subject)"]
OUTSIDE = ["policies other than the defaults at the target (C05); 'no partial write-out' is a file-system clause (C17)",
           "when the target is missing and gets created, the right-hand leaves are enumerated over [0,1] (the creation code "
           "stringifies the whole right-hand document)"]
ASSUMPTIONS = ["pairwise model: default policies (deep hashes, arrays concatenate, scalars override)"]


def _left(a, b, c):
    return cmap(("a", cmap(("p", a), ("q", 1))), ("b", cmap(("p", b))), ("w", cseq(cmap(("n", 1), ("p", a)), cmap(("n", 2), ("p", c)))),
                ("l", cseq(a, b)), ("k", 0), ("t", cmap(("x", cmap(("p", a))), ("y", cmap(("p", c))))),
                ("u", cseq(cseq(a), cseq(c))), ("e", cmap()))


# name -> (mergeat, rhs kind, targets(plain_left, a, b, c) -> list of trails or None for "must be refused")
def _targets(name, pl, a, b, c):
    if name == "single":
        return [("a",)]
    if name == "nested_list":
        return [("l",)]
    if name == "aoh_search":
        t = [("w", i) for i, e in enumerate(pl["w"]) if e["p"] > 2]
        return t or None
    if name == "aoh_all":
        return [("w", 0), ("w", 1)]
    if name == "twins":
        return [("t", "x"), ("t", "y")]
    if name == "twin_lists":
        return [("u", 0), ("u", 1)]
    if name == "nomatch":
        return None
    raise AssertionError(name)


CASES = {
    "single": ("/a", "map"), "nested_list": ("/l", "list"), "aoh_search": ("/w[p>2]", "map"), "aoh_all": ("/w/*", "map"),
    "nomatch": ("/w[p>100]", "map"), "list_scalar": ("/l", "scalar"), "twins": ("/t/*", "map"), "twin_lists": ("/u/*", "list"),
}


def _get(d, trail):
    for r in trail:
        d = d[r]
    return d


def _set(d, trail, v):
    for r in trail[:-1]:
        d = d[r]
    d[trail[-1]] = v


def mergeat_existing(name: str, a: int, b: int, c: int, x: int, y: int) -> bool:
    """Each matched node becomes merge(old, rhs); everything outside the matched subtrees is unchanged."""
    mergeat, kind = CASES[name]
    lhs = _left(a, b, c)
    rhs = {"map": cmap(("q", x), ("r", y)), "list": cseq(x, y), "scalar": x}[kind]
    pl, pr = to_plain(lhs), to_plain(rhs)
    note(left=pl, right=pr, mergeat=mergeat)
    merger = Merger(LOG, lhs, MergerConfig(LOG, SimpleNamespace(mergeat=mergeat, config=None)))
    try:
        merger.merge_with(rhs)
        refused = False
    except MergeException:
        refused = True
    if name == "list_scalar":
        want = _cp(pl)
        want["l"] = want["l"] + [x]
        got = to_plain(merger.data)
        note(merged=got, expected=want)
        return (not refused) and got == want
    targets = _targets(name, pl, a, b, c)
    if targets is None:
        # matches nothing and cannot be created: merge error, document untouched
        return refused and to_plain(merger.data) == pl
    if refused:
        note(problem="refused")
        return False
    want = _cp(pl)
    for t in targets:
        _set(want, t, pmerge(_get(pl, t), pr))
    got = to_plain(merger.data)
    note(merged=got, expected=want)
    return got == want


def mergeat_policies(h: int, ar: int, a: int, b: int, c: int, x: int, y: int) -> bool:
    """Non-default policies apply at the target: the matched node equals the judged merge, the rest is unchanged."""
    from harness.c05 import HASHES, ARRAYS
    from vf.model_merge import judge, ERR
    h, ar = realize(h), realize(ar)
    lhs = _left(a, b, c)
    rhs = cmap(("p", x), ("l2", cseq(y)), ("q", cmap(("z", y))))
    lhs["a"]["l2"] = cseq(a, x)
    lhs["a"]["q"] = cmap(("z", b))
    pl, pr = to_plain(lhs), to_plain(rhs)
    args = SimpleNamespace(mergeat="/a", config=None, hashes=HASHES[h], arrays=ARRAYS[ar])
    note(left=pl, right=pr, mergeat="/a", hashes=HASHES[h], arrays=ARRAYS[ar])
    merger = Merger(LOG, lhs, MergerConfig(LOG, args))
    try:
        merger.merge_with(rhs)
    except MergeException:
        return False
    got = to_plain(merger.data)
    pol = {"hashes": HASHES[h], "arrays": ARRAYS[ar], "aoh": "all", "sets": "unique"}
    note(merged=got)
    for k in got:
        if k != "a" and got[k] != pl[k]:
            return False
    if list(got.keys()) != list(pl.keys()):
        return False
    if HASHES[h] == "right":
        return True      # replacing the target node itself by the right-hand hash: root-replacement semantics are only defined for '/'
    return judge(pl["a"], pr, got["a"], pol, True)


def mergeat_missing(where: int, kind: int, x: int, y: int, a: int, b: int, c: int) -> bool:
    """A missing target path is created to hold the right-hand document; nothing else changes."""
    x, y = realize(x), realize(y)
    mergeat = ["/z", "/a/zz", "/new/deep", "/e/child", "/e/child/deeper"][where]
    lhs = _left(a, b, c)
    rhs = [cmap(("q", x), ("r", y)), cseq(x, y)][kind]
    pl, pr = to_plain(lhs), to_plain(rhs)
    note(left=pl, right=pr, mergeat=mergeat)
    merger = Merger(LOG, lhs, MergerConfig(LOG, SimpleNamespace(mergeat=mergeat, config=None)))
    merger.merge_with(rhs)
    want = _cp(pl)
    if where == 0:
        want["z"] = pr
    elif where == 1:
        want["a"]["zz"] = pr
    elif where == 2:
        want["new"] = {"deep": pr}
    elif where == 3:
        want["e"] = {"child": pr}          # below an existing EMPTY hash
    else:
        want["e"] = {"child": {"deeper": pr}}
    got = to_plain(merger.data)
    note(merged=got, expected=want)
    return got == want


def mergeat_writeout(mode: int, nl: int, nr: int, t: int, overwrite: bool, a: int) -> bool:
    """yaml-merge main() with --mergeat over multi-document streams: if ANY document's merge is refused (unmatched,
    uncreatable target, or impossible merge at the target) the run ends non-zero and nothing is written, also when a
    later document merges fine."""
    import contextlib
    import io
    import yamlpath.commands.yaml_merge as ym
    from yamlpath.common import Parsers
    from vf.stubs import FakeFS
    from harness.c17 import _patched, ORIG
    mode = realize(mode)
    t = realize(t)
    # left document i carries a record list; only documents with bit i of t set hold the record that --mergeat searches for
    ldocs = [cmap(("items", cseq(cmap(("name", "two" if (t >> i) & 1 else "one"), ("v", a)))), ("n", i)) for i in range(nl)]
    rdocs = [cmap(("extra", j)) for j in range(nr)]
    target = "out.yaml"
    fs = FakeFS({"l.yaml": b"L", "r.yaml": b"R", target: ORIG} if overwrite else {"l.yaml": b"L", "r.yaml": b"R"})
    args = SimpleNamespace(quiet=True, verbose=False, debug=False, output=None if overwrite else target,
                           overwrite=target if overwrite else None, backup=overwrite, yaml_files=["l.yaml", "r.yaml"],
                           config=None, mergeat="/items[name=two]", nostdin=True, json_indent=2, document_format="auto",
                           hashes=None, arrays=None, aoh=None, sets=None, anchors="stop",
                           multi_doc_mode=["condense_all", "merge_across", "matrix_merge"][mode], preserve_lhs_comments=False)
    docs = {"l.yaml": ldocs, "r.yaml": rdocs}
    saved = (ym.processcli, Parsers.get_yaml_multidoc_data)
    ym.processcli = lambda: args
    Parsers.get_yaml_multidoc_data = staticmethod(
        lambda parser, logger, source, **kw: iter([(d, True) for d in docs[source]]))
    code = 0
    written = []
    try:
        # the writer itself is C17's subject; here it only records that main() reached it
        with _patched(ym, fs, {"access": lambda p_, m_: True,
                               "write_output_document": lambda args_, log_, yaml_, docs_: written.append(len(docs_))}), \
                contextlib.redirect_stdout(io.StringIO()), contextlib.redirect_stderr(io.StringIO()):
            try:
                ym.main()
            except SystemExit as ex:
                code = ex.code if ex.code is not None else 0
    finally:
        (ym.processcli, Parsers.get_yaml_multidoc_data) = saved
    has = [bool((t >> i) & 1) for i in range(nl)]
    if mode == 0:
        # every other document (left ones too) is merged into the FIRST left document at the --mergeat path
        refused = not has[0]
    elif mode == 1:
        refused = any(not has[i] for i in range(min(nl, nr)))
    else:
        refused = not all(has)
    note(mode=args.multi_doc_mode, mergeat=args.mergeat, left_documents_holding_the_target=has, right_documents=nr,
         overwrite=overwrite, exit_status=code, mutating_ops=fs.mutating_ops(), documents_handed_to_the_writer=written)
    if refused:
        return code != 0 and fs.mutating_ops() == [] and written == []
    return code == 0 and len(written) == 1


def shards(tier, seed):
    out = []
    for name in CASES:
        out.append(shard(PID, "existing/%s" % name, "harness.c11", "mergeat_existing(%r, a, b, c, x, y)" % name,
                         [("a", "int"), ("b", "int"), ("c", "int"), ("x", "int"), ("y", "int")],
                         ["-9 <= a <= 9 and -9 <= b <= 9 and -9 <= c <= 9", "-9 <= x <= 9 and -9 <= y <= 9"],
                         family="existing/%s" % name, budget=900,
                         desc="mergeat %s with a right-hand %s" % CASES[name], bounds={"leaves": "[-9,9]"}))
    out.append(shard(PID, "policies", "harness.c11", "mergeat_policies(h, ar, a, b, c, x, y)",
                     [("h", "int"), ("ar", "int"), ("a", "int"), ("b", "int"), ("c", "int"), ("x", "int"), ("y", "int")],
                     ["0 <= h < 3 and 0 <= ar < 4", "-2 <= a <= 2 and -2 <= b <= 2 and -2 <= c <= 2 and -2 <= x <= 2 and -2 <= y <= 2"],
                     family="policies", budget=1200, desc="hash/array policies at a mergeat target; complement unchanged"))
    for where in range(5):
        for kind in range(2):
            out.append(shard(PID, "missing/w%d_k%d" % (where, kind), "harness.c11",
                             "mergeat_missing(%d, %d, x, y, a, b, c)" % (where, kind),
                             [("x", "int"), ("y", "int"), ("a", "int"), ("b", "int"), ("c", "int")],
                             ["0 <= x <= 1 and 0 <= y <= 1", "-9 <= a <= 9 and -9 <= b <= 9 and -9 <= c <= 9"],
                             family="missing", budget=900,
                             desc="mergeat %s (missing, created) with a right-hand %s" % (["/z", "/a/zz", "/new/deep", "/e/child", "/e/child/deeper"][where],
                                                                                         ["hash", "array"][kind]),
                             bounds={"x,y": "[0,1] enumerated", "a,b,c": "[-9,9]"}))
    for mode in range(3):
        out.append(shard(PID, "writeout/%s" % ["condense", "across", "matrix"][mode], "harness.c11",
                         "mergeat_writeout(%d, nl, nr, t, overwrite, a)" % mode,
                         [("nl", "int"), ("nr", "int"), ("t", "int"), ("overwrite", "bool"), ("a", "int")],
                         ["1 <= nl <= 2 and 1 <= nr <= 2", "0 <= t < 4", "0 <= a <= 1"], family="writeout", budget=1800,
                         desc="yaml-merge main(), --mergeat=/items[name=two], %s mode, 1..2 x 1..2 documents, the target present in a "
                              "symbolic subset of the left documents: refused anywhere => non-zero exit and no write-out"
                              % ["condense_all", "merge_across", "matrix_merge"][mode]))
    return out
