"""C17 - a failing or interrupted tool run never loses the user's file."""
import contextlib
import io
import sys
from types import SimpleNamespace

from crosshair import NoTracing, realize

import yamlpath.commands.yaml_set as ys
import yamlpath.commands.yaml_merge as ym
import yamlpath.commands.eyaml_rotate_keys as rk
import yamlpath.eyaml.eyamlprocessor as ep
from yamlpath.common import Parsers
from yamlpath.merger import Merger, MergerConfig
from yamlpath.wrappers import ConsolePrinter

from vf.common import LOG, cmap, cseq
from vf.shard import shard, note
from vf.stubs import FakeFS, fake_eyaml_run, enc

PID = "C17"
FILES = ["yamlpath/commands/yaml_set.py", "yamlpath/commands/yaml_merge.py", "yamlpath/commands/eyaml_rotate_keys.py",
         "yamlpath/wrappers/consoleprinter.py", "yamlpath/common/parsers.py"]
FUNCTIONS = ["yaml_set.write_output_document/save_to_file/save_to_yaml_file/save_to_json_file", "yaml_merge.write_output_document",
             "eyaml_rotate_keys.main (save block)", "yaml_set.main (early exits)", "yaml_merge.main/validateargs/process_* (early exits)",
             "ConsolePrinter.critical"]
STUBS = ["ruamel's YAML.load inside Merger.prepare_for_dump (JSON targets) runs untraced on the concrete document",
         "file system: the command modules' open/exists/remove/copy2/isfile/tempfile are re-bound to an in-memory FS whose "
         "k-th operation fails, possibly half-applied (vf/stubs.py FakeFS)", "document loading: Parsers.get_yaml_data / "
         "get_yaml_multidoc_data return harness-built documents", "eyaml executable: in-process keyed reversible cipher "
         "(vf/stubs.py fake_eyaml_run)", "argv: processcli() replaced by a namespace with the parsed options"]
OUTSIDE = ["real kernels and file systems, signals, power loss (the model is 'operation k fails, possibly half-applied')",
           "failures of more than one operation per run; argparse itself"]
ASSUMPTIONS = ["fault schedule = symbolic index k of the failing operation and symbolic number of bytes that reached the medium"]

ORIG = b"a: 1\nb: [1, 2]\n"


@contextlib.contextmanager
def _patched(mod, fs, extra=None):
    names = ["exists", "remove", "copy2", "isfile"]
    saved = {n: getattr(mod, n) for n in names if hasattr(mod, n)}
    had_open = "open" in vars(mod)
    for n in saved:
        setattr(mod, n, getattr(fs, n))
    mod.open = fs.open
    saved_extra = {}
    for k, v in (extra or {}).items():
        saved_extra[k] = getattr(mod, k, None)
        setattr(mod, k, v)
    try:
        yield
    finally:
        for n, v in saved.items():
            setattr(mod, n, v)
        if not had_open:
            del mod.open
        for k, v in saved_extra.items():
            setattr(mod, k, v)


def _doc():
    with NoTracing():
        yaml = Parsers.get_yaml_editor()
        data = yaml.load(ORIG.decode())
        data["a"] = 2
    return yaml, data


def _verdict(fs, failed, backup, target, pre):
    if failed:
        if backup:
            ok = fs.files.get(target) == pre or fs.files.get(target + ".bak") == pre
            note(after_fault={k: v.decode(errors="replace") for k, v in fs.files.items()}, ops=fs.log)
            return ok
        return True
    ok = fs.files.get(target) != pre
    if backup:
        ok = ok and fs.files.get(target + ".bak") == pre
    note(after={k: v.decode(errors="replace") for k, v in fs.files.items()}, ops=fs.log)
    return ok


def set_save_fault(k: int, partial: int, backup: bool, stale: bool, as_json: bool) -> bool:
    """yaml-set save sequence with the k-th I/O operation failing."""
    target = "f.json" if as_json else "f.yaml"
    files = {target: ORIG}
    if stale:
        files[target + ".bak"] = b"old backup"
    fs = FakeFS(files, k, partial)
    args = SimpleNamespace(quiet=True, verbose=False, debug=False, yaml_file=target, backup=backup, json_indent=2)
    log = ConsolePrinter(args)
    yaml, data = _doc()
    failed = False
    with _patched(ys, fs, {"tempfile": SimpleNamespace(TemporaryFile=io.BytesIO)}):
        try:
            ys.write_output_document(args, log, yaml, data)
        except OSError:
            failed = True
    return _verdict(fs, failed, backup, target, ORIG)


def merge_save_fault(k: int, partial: int, backup: bool, stale: bool, as_json: bool) -> bool:
    """yaml-merge --overwrite [--backup] save sequence with the k-th I/O operation failing."""
    target = "f.json" if as_json else "f.yaml"
    files = {target: ORIG}
    if stale:
        files[target + ".bak"] = b"old backup"
    fs = FakeFS(files, k, partial)
    args = SimpleNamespace(quiet=True, verbose=False, debug=False, overwrite=target, output=target, backup=backup,
                           json_indent=2, document_format="auto", config=None, mergeat="/")
    log = ConsolePrinter(args)
    yaml, data = _doc()
    real_load = yaml.load

    def untraced_load(stream):
        # prepare_for_dump() re-loads the JSON image of the (concrete) document through ruamel's scanner
        with NoTracing():
            return real_load(stream)
    yaml.load = untraced_load
    merger = Merger(log, data, MergerConfig(log, args))
    failed = False
    with _patched(ym, fs):
        try:
            ym.write_output_document(args, log, yaml, [merger])
        except OSError:
            failed = True
    return _verdict(fs, failed, backup, target, ORIG)


def _rotate_main(fs, data, backup, files=None):
    saved = (ep.run, Parsers.get_yaml_data, rk.processcli, rk.validateargs, ep.EYAMLProcessor._can_run_eyaml)
    ep.run = fake_eyaml_run
    Parsers.get_yaml_data = staticmethod(
        lambda parser, logger, source, **kw: ((files[source] if files else data), True))
    ep.EYAMLProcessor._can_run_eyaml = lambda self: True
    rk.processcli = lambda: SimpleNamespace(
        quiet=True, verbose=False, debug=False, backup=backup, eyaml="eyaml", newprivatekey="newprv.pem",
        newpublickey="newpub.pem", oldprivatekey="oldprv.pem", oldpublickey="oldpub.pem", yaml_files=(sorted(files) if files else ["f.yaml"]))
    rk.validateargs = lambda args, log: None
    code = 0
    failed = False
    try:
        with _patched(rk, fs), contextlib.redirect_stdout(io.StringIO()), contextlib.redirect_stderr(io.StringIO()):
            try:
                rk.main()
            except SystemExit as ex:
                code = ex.code or 0
            except OSError:
                failed = True
    finally:
        (ep.run, Parsers.get_yaml_data, rk.processcli, rk.validateargs, ep.EYAMLProcessor._can_run_eyaml) = saved
    return code, failed


def rotate_save_fault(k: int, partial: int, backup: bool, stale: bool) -> bool:
    """eyaml-rotate-keys save sequence with the k-th I/O operation failing."""
    files = {"f.yaml": ORIG}
    if stale:
        files["f.yaml.bak"] = b"old backup"
    fs = FakeFS(files, k, partial)
    data = cmap(("a", enc("OLD", "secret")), ("b", 1))
    code, failed = _rotate_main(fs, data, backup)
    if not failed and code != 0:
        return False
    return _verdict(fs, failed, backup, "f.yaml", ORIG)


# ----------------------------------------------------------------------------- early exits
def _ys_args(**kw):
    base = dict(quiet=True, verbose=False, debug=False, yaml_file="f.yaml", backup=True, json_indent=2, change="a",
                pathsep="auto", mustexist=False, saveto=None, value=None, stdin=False, file=None, null=False, random=None,
                random_from="x", nostdin=True, eyaml="eyaml", publickey=None, privatekey=None, check=None, delete=False,
                aliasof=None, mergekey=None, eyamlcrypt=False, format="default", tag=None, anchor=None)
    base.update(kw)
    return SimpleNamespace(**base)


SET_FAILS = [
    ("required path unmatched", dict(change="nope.deeper", value="x", mustexist=True)),
    ("failed --check", dict(change="a", value="x", check="not-the-old-value")),
    ("impossible change: key below a scalar", dict(change="a.sub", value="x")),
    ("deleting the document root", dict(change="/", delete=True)),
    ("saveto with several matches", dict(change="b.*", value="x", saveto="c")),
    ("alias of a missing anchor path", dict(change="a", aliasof="nope.nothing")),
]


def set_early_exit(which: int, a: int) -> bool:
    """yaml-set ends non-zero for a reason detected before writing: no file is created, changed or removed."""
    which = realize(which)
    what, opts = SET_FAILS[which]
    fs = FakeFS({"f.yaml": ORIG})
    data = cmap(("a", a), ("b", cseq(1, 2)))
    args = _ys_args(**opts)
    saved = (ys.processcli, ys.validateargs, Parsers.get_yaml_data)
    ys.processcli = lambda: args
    ys.validateargs = lambda a_, l_: None
    Parsers.get_yaml_data = staticmethod(lambda parser, logger, source, **kw: (data, True))
    code = 0
    try:
        with _patched(ys, fs, {"tempfile": SimpleNamespace(TemporaryFile=io.BytesIO)}), \
                contextlib.redirect_stdout(io.StringIO()), contextlib.redirect_stderr(io.StringIO()):
            try:
                ys.main()
            except SystemExit as ex:
                code = ex.code if ex.code is not None else 0
            except OSError:
                raise
            except Exception as ex:      # an uncaught exception ends the process with status 1 (crash-freedom: C15)
                code = 1
                note(crashed_with=type(ex).__name__)
    finally:
        (ys.processcli, ys.validateargs, Parsers.get_yaml_data) = saved
    note(cause=what, exit_status=code, mutating_ops=fs.mutating_ops(), files=sorted(fs.files))
    return code != 0 and fs.mutating_ops() == [] and fs.files == {"f.yaml": ORIG}


MERGE_FAILS = ["array into hash", "scalar into hash", "anchor conflict (stop)", "hash into set", "unmatched mergeat search"]


def merge_early_exit(which: int, overwrite: bool, a: int) -> bool:
    """yaml-merge main() ends non-zero for a merge/anchor conflict: nothing is written, copied or removed."""
    from ruamel.yaml.scalarstring import PlainScalarString
    from vf.common import cset
    which = realize(which)
    mergeat = "/"
    if which == 0:
        lhs, rhs = cmap(("k", cmap(("p", a)))), cmap(("k", cseq(1)))
    elif which == 1:
        lhs, rhs = cmap(("k", a)), 5
    elif which == 2:
        lhs = cmap(("x", PlainScalarString("one", anchor="anc")))
        rhs = cmap(("y", PlainScalarString("two", anchor="anc")))
    elif which == 3:
        lhs, rhs = cmap(("s", cset("m"))), cmap(("s", cmap(("p", a))))
    else:
        lhs, rhs = cmap(("w", cseq(cmap(("p", a))))), cmap(("q", 1))
        mergeat = "/w[p>100]"
    target = "out.yaml"
    fs = FakeFS({"l.yaml": b"L", "r.yaml": b"R", target: ORIG} if overwrite else {"l.yaml": b"L", "r.yaml": b"R"})
    args = SimpleNamespace(quiet=True, verbose=False, debug=False, output=None if overwrite else target,
                           overwrite=target if overwrite else None, backup=overwrite, yaml_files=["l.yaml", "r.yaml"],
                           config=None, mergeat=mergeat, nostdin=True, json_indent=2, document_format="auto", hashes=None,
                           arrays=None, aoh=None, sets=None, anchors="stop", multi_doc_mode="condense_all",
                           preserve_lhs_comments=False)
    docs = {"l.yaml": lhs, "r.yaml": rhs}
    saved = (ym.processcli, Parsers.get_yaml_multidoc_data)
    ym.processcli = lambda: args
    Parsers.get_yaml_multidoc_data = staticmethod(lambda parser, logger, source, **kw: iter([(docs[source], True)]))
    code = 0
    try:
        with _patched(ym, fs, {"access": lambda p, m: True}), \
                contextlib.redirect_stdout(io.StringIO()), contextlib.redirect_stderr(io.StringIO()):
            try:
                ym.main()
            except SystemExit as ex:
                code = ex.code if ex.code is not None else 0
    finally:
        (ym.processcli, Parsers.get_yaml_multidoc_data) = saved
    note(cause=MERGE_FAILS[which], overwrite=overwrite, exit_status=code, mutating_ops=fs.mutating_ops(), files=sorted(fs.files))
    if code == 0 or fs.mutating_ops() != []:
        return False
    if overwrite:
        return fs.files.get(target) == ORIG and (target + ".bak") not in fs.files
    return target not in fs.files


def merge_existing_output(exists_flag: bool) -> bool:
    """yaml-merge --output never replaces an existing file: refused during argument validation."""
    fs = FakeFS({"out.yaml": ORIG} if exists_flag else {})
    args = SimpleNamespace(quiet=True, verbose=False, debug=False, output="out.yaml", overwrite=None, backup=False,
                           yaml_files=["l.yaml", "r.yaml"], config=None, mergeat="/", nostdin=True, json_indent=2,
                           document_format="auto", hashes=None, arrays=None, aoh=None, sets=None, anchors=None,
                           multi_doc_mode=None, preserve_lhs_comments=False)
    log = ConsolePrinter(args)
    code = 0
    with _patched(ym, fs), contextlib.redirect_stdout(io.StringIO()), contextlib.redirect_stderr(io.StringIO()):
        try:
            ym.validateargs(args, log)
        except SystemExit as ex:
            code = ex.code if ex.code is not None else 0
    note(output_exists=exists_flag, exit_status=code, mutating_ops=fs.mutating_ops())
    if exists_flag:
        return code != 0 and fs.mutating_ops() == [] and fs.files == {"out.yaml": ORIG}
    return fs.mutating_ops() == []


SPELLINGS = ["out.yaml", "~/out.yaml", "$HOME/out.yaml", "${HOME}/out.yaml", "./out.yaml"]


def merge_output_spelling(k: int) -> bool:
    """yaml-merge --output never replaces an existing file, however the name is spelled: every file that existed before
    the run (under the literal spelling or under what ~ / $VAR expansion makes of it) keeps its bytes."""
    import os
    k = realize(k)
    sp, k = k % len(SPELLINGS), k // len(SPELLINGS)
    lit_exists, k = k % 2, k // 2
    exp_exists = k % 2
    name = SPELLINGS[sp]
    expanded = os.path.expandvars(os.path.expanduser(name))
    files = {"l.yaml": b"L", "r.yaml": b"R"}
    if lit_exists:
        files[name] = ORIG
    if exp_exists:
        files[expanded] = ORIG
    lit_exists = name in files
    before = dict(files)
    fs = FakeFS(files)
    args = SimpleNamespace(quiet=True, verbose=False, debug=False, output=name, overwrite=None, backup=False,
                           yaml_files=["l.yaml", "r.yaml"], config=None, mergeat="/", nostdin=True, json_indent=2,
                           document_format="auto", hashes=None, arrays=None, aoh=None, sets=None, anchors="stop",
                           multi_doc_mode="condense_all", preserve_lhs_comments=False)
    with NoTracing():
        yaml = Parsers.get_yaml_editor()
        docs = {"l.yaml": yaml.load("a: 1\n"), "r.yaml": yaml.load("b: 2\n")}
    saved = (ym.processcli, Parsers.get_yaml_multidoc_data)
    ym.processcli = lambda: args
    Parsers.get_yaml_multidoc_data = staticmethod(lambda parser, logger, source, **kw: iter([(docs[source], True)]))
    code = 0
    try:
        with _patched(ym, fs, {"access": lambda p_, m_: True}), \
                contextlib.redirect_stdout(io.StringIO()), contextlib.redirect_stderr(io.StringIO()):
            try:
                ym.main()
            except SystemExit as ex:
                code = ex.code if ex.code is not None else 0
    finally:
        (ym.processcli, Parsers.get_yaml_multidoc_data) = saved
    note(output=name, expands_to=expanded, existed_before=sorted(before), exit_status=code, ops=fs.log,
         files_after={k2: v.decode(errors="replace") for k2, v in fs.files.items()})
    for path, content in before.items():
        if fs.files.get(path) != content:
            return False
    if lit_exists:
        return code != 0 and fs.mutating_ops() == []
    return code == 0


def shards(tier, seed):
    out = []
    for name, fn, kmax in (("set", "set_save_fault", 12), ("merge", "merge_save_fault", 7)):
        for as_json in (False, True):
            out.append(shard(PID, "fault/%s/%s" % (name, "json" if as_json else "yaml"), "harness.c17",
                             "%s(k, partial, backup, stale, %r)" % (fn, as_json),
                             [("k", "int"), ("partial", "int"), ("backup", "bool"), ("stale", "bool")],
                             ["0 <= k <= %d" % kmax, "0 <= partial <= 15"], family="fault/%s" % name, budget=1800,
                             desc="%s save sequence (%s target): operation k fails (0 = none) after `partial` bytes; "
                                  "with/without --backup, stale .bak" % (name, "JSON" if as_json else "YAML"),
                             bounds={"k": "[0,%d] (longest sequence has %d operations)" % (kmax, kmax - 1), "partial": "[0,15]"}))
    out.append(shard(PID, "fault/rotate", "harness.c17", "rotate_save_fault(k, partial, backup, stale)",
                     [("k", "int"), ("partial", "int"), ("backup", "bool"), ("stale", "bool")],
                     ["0 <= k <= 7", "0 <= partial <= 15"], family="fault/rotate", budget=1800,
                     desc="eyaml-rotate-keys save sequence: operation k fails", bounds={"k": "[0,7]", "partial": "[0,15]"}))
    out.append(shard(PID, "early/set", "harness.c17", "set_early_exit(which, a)", [("which", "int"), ("a", "int")],
                     ["0 <= which < %d" % len(SET_FAILS), "-9 <= a <= 9"], family="early/set", budget=900,
                     desc="yaml-set main(): %d failure causes detected before writing" % len(SET_FAILS)))
    out.append(shard(PID, "early/merge", "harness.c17", "merge_early_exit(which, overwrite, a)",
                     [("which", "int"), ("overwrite", "bool"), ("a", "int")], ["0 <= which < %d" % len(MERGE_FAILS), "-9 <= a <= 9"],
                     family="early/merge", budget=900,
                     desc="yaml-merge main(): %d merge/anchor conflicts, --output or --overwrite --backup" % len(MERGE_FAILS)))
    out.append(shard(PID, "early/merge_output", "harness.c17", "merge_existing_output(exists_flag)", [("exists_flag", "bool")],
                     [], family="early/merge", budget=300, desc="yaml-merge --output refuses an existing file"))
    out.append(shard(PID, "early/merge_output_spelling", "harness.c17", "merge_output_spelling(k)", [("k", "int")],
                     ["0 <= k < %d" % (len(SPELLINGS) * 4)], family="early/merge", budget=900, kind="S",
                     desc="yaml-merge main() with --output spelled plainly / with ~ / with $HOME, a file existing under the literal "
                          "and/or the expanded name: no pre-existing file is ever replaced"))
    return out
