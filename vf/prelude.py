"""Engine prelude (DESIGN.md section 2.2): part of the trusted base.

* keeps symbolic ints symbolic through empty-spec formatting (format(), str.format, f-strings);
* ast.literal_eval(non-str) raises the ValueError without building its message;
* ast.literal_eval(<letters-only str>) is answered by a model which is validated exhaustively
  against the real function (validate_literal_eval_model) before it is relied on;
* counts z3 check() calls and the time spent in them.

Importing this module outside of a CrossHair trace is harmless: the patches only act while tracing.
"""
import ast
import builtins
import string
import time

import z3
from crosshair import register_patch, realize, NoTracing
import crosshair.core_and_libs  # noqa: F401  (registers the stock patches first)
import crosshair.core as _core
from crosshair.libimpl import builtinslib as _bl

# --------------------------------------------------------------------------- z3 accounting
Z3_STATS = {"checks": 0, "seconds": 0.0, "unknown": 0}
_orig_check = z3.Solver.check


def _counted_check(self, *a, **kw):
    t = time.perf_counter()
    try:
        r = _orig_check(self, *a, **kw)
    finally:
        Z3_STATS["seconds"] += time.perf_counter() - t
        Z3_STATS["checks"] += 1
    if r == z3.unknown:
        Z3_STATS["unknown"] += 1
    return r


if getattr(z3.Solver.check, "__name__", "") != "_counted_check":
    z3.Solver.check = _counted_check

# --------------------------------------------------------------------------- format()
_ch_format = _core._PATCH_REGISTRATIONS[builtins.format]


def _format(obj, format_spec=""):
    with NoTracing():
        symint = isinstance(obj, _bl.SymbolicInt) and not isinstance(obj, _bl.SymbolicBool)
        empty = (not isinstance(format_spec, _bl.AnySymbolicStr)) and format_spec == ""
        # stock CrossHair formats a deep-realised COPY of the object, untraced: side effects of __str__ (yamlpath
        # caches the stringified path in the object) are lost.  For yamlpath's own classes with the default
        # __format__, format(obj, "") is str(obj) by the language definition: call it, traced, on the original.
        own = (empty and type(obj).__module__.startswith("yamlpath")
               and type(obj).__format__ is object.__format__)
    if symint and empty:
        return obj.__str__()
    if own:
        return str(obj)
    return _ch_format(obj, format_spec)


_core._PATCH_REGISTRATIONS[builtins.format] = _format

_orig_num_format = _bl.SymbolicNumberAble.__format__


def _sym_format(self, fmt):
    if (isinstance(self, _bl.SymbolicInt) and not isinstance(self, _bl.SymbolicBool)
            and realize(fmt) == ""):
        return self.__str__()
    return _orig_num_format(self, fmt)


_bl.SymbolicNumberAble.__format__ = _sym_format

# --------------------------------------------------------------------------- literal_eval
_real_literal_eval = ast.literal_eval
LETTERS = string.ascii_letters
_LE_WORDS = {"True": True, "False": False, "None": None}


def literal_eval_model(x):
    """Model of ast.literal_eval on a non-empty letters-only string."""
    if x == "True":
        return True
    if x == "False":
        return False
    if x == "None":
        return None
    raise ValueError("malformed node or string (model)")


def _letters_only(x):
    if len(x) == 0 or len(x) > 3:
        return False
    for c in x:
        if not (("a" <= c <= "z") or ("A" <= c <= "Z")):
            return False
    return True


def _lit(x):
    if isinstance(x, (int, float, dict, list, set, tuple)) or x is None:
        # the real function raises ValueError("malformed node or string: " + repr(x)); the repr
        # would realise every symbolic leaf inside x and the callers discard the message
        raise ValueError("malformed node or string")
    if isinstance(x, str):
        with NoTracing():
            sym = isinstance(x, _bl.AnySymbolicStr)
        if sym and _letters_only(x):
            return literal_eval_model(x)
    return _real_literal_eval(x)


register_patch(ast.literal_eval, _lit)


def validate_literal_eval_model(maxlen=3):
    """Compare the model with the real literal_eval on every letters-only string up to maxlen.

    Returns (number of strings compared, list of disagreements)."""
    import itertools
    n = 0
    bad = []
    for ln in range(1, maxlen + 1):
        for tup in itertools.product(LETTERS, repeat=ln):
            s = "".join(tup)
            n += 1
            try:
                want = ("v", _real_literal_eval(s))
            except (ValueError, SyntaxError):
                want = ("e", None)
            except Exception as ex:  # pragma: no cover
                want = ("x", type(ex).__name__)
            try:
                got = ("v", literal_eval_model(s))
            except ValueError:
                got = ("e", None)
            if got != want:
                bad.append(s)
    return n, bad
