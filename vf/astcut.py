"""Cut YAMLPath._parse_path (from /repo, at run time) into prologue / loop body / epilogue.

The loop body becomes `step(self, yaml_path, pathsep, strip_escapes, char_idx, char, <state...>)`
returning the state tuple (every `continue` becomes `return <state>`); the epilogue becomes
`finish(self, yaml_path, <state...>)`.  The four enum-typed locals are decoded lazily
(`x is E` -> `_is(x, E)` etc.) so that CrossHair does not enumerate enum members up front.
This rewrite is mechanical and confined to those four names; its output is stored with the evidence.
"""
import ast

import os

SRC = os.path.join(os.environ.get("VERIF_REPO", "") or "/repo", "yamlpath", "yamlpath.py")
STATE = ["path_segments", "segment_id", "segment_type", "demarc_stack", "escape_next", "search_inverted",
         "search_method", "search_attr", "search_keyword", "seeking_regex_delim", "capturing_regex",
         "collector_level", "collector_operator", "seeking_collector_operator", "next_char_must_be",
         "seeking_anchor_mark", "demarc_count"]
ENUMS = {"segment_type", "search_method", "search_keyword", "collector_operator"}
TEMPS_OK = {"idx", "leading_mark", "wrap_ex"}


class OutlineChanged(Exception):
    pass


def _names(nodes, ctx):
    out = set()
    for n in nodes:
        for x in ast.walk(n):
            if isinstance(x, ast.Name) and isinstance(x.ctx, ctx):
                out.add(x.id)
            if isinstance(x, ast.ExceptHandler) and x.name and ctx is ast.Store:
                out.add(x.name)
    return out


def cut():
    tree = ast.parse(open(SRC).read())
    cls = [n for n in tree.body if isinstance(n, ast.ClassDef) and n.name == "YAMLPath"]
    if len(cls) != 1:
        raise OutlineChanged("class YAMLPath not found")
    fns = [n for n in cls[0].body if isinstance(n, ast.FunctionDef) and n.name == "_parse_path"]
    if len(fns) != 1:
        raise OutlineChanged("_parse_path not found")
    fn = fns[0]
    loops = [i for i, n in enumerate(fn.body) if isinstance(n, (ast.For, ast.While))]
    if len(loops) != 1 or not isinstance(fn.body[loops[0]], ast.For):
        raise OutlineChanged("_parse_path no longer has exactly one top-level for loop")
    li = loops[0]
    loop = fn.body[li]
    if ast.unparse(loop.target) != "(char_idx, char)" or ast.unparse(loop.iter) != "enumerate(yaml_path)":
        raise OutlineChanged("loop header changed: for %s in %s" % (ast.unparse(loop.target), ast.unparse(loop.iter)))
    if loop.orelse:
        raise OutlineChanged("loop has an else clause")
    for x in ast.walk(ast.Module(body=loop.body, type_ignores=[])):
        if isinstance(x, (ast.For, ast.While, ast.AsyncFor, ast.Break, ast.ListComp, ast.GeneratorExp,
                          ast.SetComp, ast.DictComp, ast.Lambda, ast.FunctionDef)):
            raise OutlineChanged("loop body contains %s" % type(x).__name__)
    prologue = fn.body[:li]
    epilogue = fn.body[li + 1:]
    stored = _names(loop.body, ast.Store)
    unknown = stored - set(STATE) - TEMPS_OK
    if unknown:
        raise OutlineChanged("loop body assigns locals outside the state list: %s" % sorted(unknown))
    pro_stored = _names(prologue, ast.Store)
    used_later = (_names(loop.body, ast.Load) | _names(epilogue, ast.Load)) & pro_stored
    extra = used_later - set(STATE) - {"yaml_path", "pathsep", "first_anchor_pos"}
    if extra:
        raise OutlineChanged("prologue defines state the harness does not know: %s" % sorted(extra))
    for x in ast.walk(ast.Module(body=epilogue, type_ignores=[])):
        if isinstance(x, (ast.For, ast.While)):
            raise OutlineChanged("epilogue contains a loop")
    return fn, prologue, loop, epilogue


def structural_termination():
    """No while, no recursion in the parser; every for iterates a string/deque/enumerate of one."""
    tree = ast.parse(open(SRC).read())
    problems = []
    cls = [n for n in tree.body if isinstance(n, ast.ClassDef) and n.name == "YAMLPath"][0]
    watched = ["_parse_path", "_expand_splats", "_stringify_yamlpath_segments", "ensure_escaped",
               "escape_path_section"]
    seen = []
    for f in cls.body:
        if isinstance(f, ast.FunctionDef) and f.name in watched:
            seen.append(f.name)
            for x in ast.walk(f):
                if isinstance(x, ast.While):
                    problems.append("%s: while loop at line %d" % (f.name, x.lineno))
                if isinstance(x, ast.Call):
                    callee = ast.unparse(x.func)
                    if callee.endswith("." + f.name) or callee == f.name:
                        problems.append("%s: recursive call at line %d" % (f.name, x.lineno))
                if isinstance(x, ast.For):
                    it = ast.unparse(x.iter)
                    if it not in ("enumerate(yaml_path)", "segment_id", "segments", "symbols", "oparts", "str(value)"):
                        problems.append("%s: for over %s at line %d" % (f.name, it, x.lineno))
    for w in watched:
        if w not in seen:
            problems.append("function %s missing" % w)
    return len(seen), problems


_RET = "return (" + ", ".join(STATE) + ",)"


def _is_enum_name(n):
    return isinstance(n, ast.Name) and n.id in ENUMS and isinstance(n.ctx, ast.Load)


class _Lazy(ast.NodeTransformer):
    def __init__(self, in_loop):
        self.in_loop = in_loop

    def visit_Continue(self, node):
        return ast.parse(_RET).body[0]

    def visit_Compare(self, node):
        if (_is_enum_name(node.left) and len(node.ops) == 1
                and isinstance(node.ops[0], (ast.Is, ast.IsNot, ast.Eq, ast.NotEq))):
            call = ast.Call(func=ast.Name(id="_is", ctx=ast.Load()), args=[node.left, node.comparators[0]],
                            keywords=[])
            if isinstance(node.ops[0], (ast.IsNot, ast.NotEq)):
                return ast.UnaryOp(op=ast.Not(), operand=call)
            return call
        return self.generic_visit(node)

    def visit_BoolOp(self, node):
        vals = []
        for v in node.values:
            if _is_enum_name(v):
                vals.append(ast.Call(func=ast.Name(id="_truthy", ctx=ast.Load()), args=[v], keywords=[]))
            else:
                vals.append(self.visit(v))
        node.values = vals
        return node

    def visit_If(self, node):
        if _is_enum_name(node.test):
            node.test = ast.Call(func=ast.Name(id="_truthy", ctx=ast.Load()), args=[node.test], keywords=[])
        return self.generic_visit(node)

    def visit_Name(self, node):
        if _is_enum_name(node):
            return ast.Call(func=ast.Name(id="_force", ctx=ast.Load()), args=[node], keywords=[])
        return node


def build_source():
    """Source text defining step(...) and finish(...)."""
    fn, prologue, loop, epilogue = cut()
    import copy
    body = [_Lazy(True).visit(copy.deepcopy(s)) for s in loop.body]
    body.append(ast.parse(_RET).body[0])
    args = "self, yaml_path, pathsep, strip_escapes, char_idx, char, " + ", ".join(STATE)
    f = ast.parse("def step(%s):\n    pass" % args).body[0]
    f.body = body
    ebody = [_Lazy(False).visit(copy.deepcopy(s)) for s in epilogue]
    g = ast.parse("def finish(self, yaml_path, %s):\n    pass" % ", ".join(STATE)).body[0]
    g.body = ebody
    mod = ast.Module(body=[f, g], type_ignores=[])
    ast.fix_missing_locations(mod)
    return ast.unparse(mod)
