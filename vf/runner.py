"""Shard scheduler, verdict mapping, replay, known findings, evidence (DESIGN.md section 3).

exit codes: 0 held on everything explored (KNOWN-FINDING lines allowed) / 1 VIOLATION /
            2 some shard inconclusive / 3 a counterexample did not replay (harness or engine error)
"""
import concurrent.futures as cf
import hashlib
import importlib
import json
import os
import random
import re
import shutil
import subprocess
import sys
import tempfile
import time

ROOT = os.path.dirname(os.path.dirname(os.path.abspath(__file__)))
PY = "/verif/.venv/bin/python"
KNOWN = os.path.join(ROOT, "known_findings.json")
# VERIF_REPO: development aid for trying the checks on a scratch worktree (seeded breaking changes) without touching
# /repo; evidence then goes to a scratch directory and is never the committed evidence.
ALT_REPO = os.environ.get("VERIF_REPO", "")
EVID = os.path.join(ROOT, "evidence") if not ALT_REPO else os.path.join(
    "/tmp", "verif_alt_evidence_" + hashlib.sha256(ALT_REPO.encode()).hexdigest()[:8])
MAX_KNOWN_ROUNDS = 8


def _env():
    env = dict(os.environ)
    env["PYTHONPATH"] = ROOT + ((os.pathsep + ALT_REPO) if ALT_REPO else "")
    env["PYTHONDONTWRITEBYTECODE"] = "1"
    env["PYTHONHASHSEED"] = "0"
    env.pop("VERIF_REPLAY", None)
    return env


def run_worker(spec, gen_dir):
    spec = dict(spec)
    spec["gen_dir"] = gen_dir
    fd, path = tempfile.mkstemp(suffix=".json", dir=gen_dir)
    with os.fdopen(fd, "w") as fh:
        json.dump(spec, fh)
    wall = float(spec["budget"]) * 2.0 + 240.0
    t0 = time.time()
    try:
        p = subprocess.run([PY, "-m", "vf.worker", path], cwd=ROOT, env=_env(), capture_output=True,
                           text=True, timeout=wall)
    except subprocess.TimeoutExpired:
        return {"id": spec["id"], "verdict": "INCONCLUSIVE", "reason": "wall-clock limit %ds" % wall,
                "paths": 0, "z3_checks": 0, "z3_seconds": 0.0, "wall_s": time.time() - t0}
    lines = [ln for ln in p.stdout.splitlines() if ln.startswith("{")]
    if not lines:
        return {"id": spec["id"], "verdict": "INCONCLUSIVE",
                "reason": "worker produced no result (rc=%s): %s" % (p.returncode, p.stderr[-800:]),
                "paths": 0, "z3_checks": 0, "z3_seconds": 0.0, "wall_s": time.time() - t0}
    return json.loads(lines[-1])


def run_replay(spec, args, gen_dir):
    fd, path = tempfile.mkstemp(suffix=".json", dir=gen_dir)
    with os.fdopen(fd, "w") as fh:
        json.dump({"shard": dict(spec, gen_dir=gen_dir), "args": args}, fh)
    env = _env()
    env["VERIF_GEN_DIR"] = gen_dir
    p = subprocess.run([PY, "-m", "vf.replay", path], cwd=ROOT, env=env, capture_output=True, text=True,
                       timeout=600)
    lines = [ln for ln in p.stdout.splitlines() if ln.startswith("{")]
    if not lines:
        return {"outcome": "error", "where": p.stderr[-800:]}
    return json.loads(lines[-1])


def load_known():
    if not os.path.exists(KNOWN):
        return []
    return json.load(open(KNOWN)).get("findings", [])


def match_known(known, spec, args, rep):
    for e in known:
        if e["property"] != spec["pid"]:
            continue
        if not re.fullmatch(e.get("family", ".*"), spec["family"]):
            continue
        sig = e.get("signature", {})
        if sig.get("outcome") and sig["outcome"] != rep.get("outcome"):
            continue
        if sig.get("exc_type") and sig["exc_type"] != rep.get("exc_type"):
            continue
        if sig.get("where") and sig["where"] != rep.get("where"):
            continue
        try:
            if not eval(e.get("predicate", "True"), {}, dict(args)):
                continue
        except Exception:
            continue
        return e
    return None


def with_extra_pre(spec, extra):
    from vf.shard import render
    s = dict(spec)
    s["pre"] = list(spec["pre"]) + list(extra)
    s["src"] = render(spec["module"], spec["call"], [tuple(p) for p in spec["params"]], s["pre"])
    return s


def process_shard(spec, gen_root, known):
    """Returns a record with final status: confirmed | violation | inconclusive | noreplay."""
    gen_dir = tempfile.mkdtemp(prefix="s_", dir=gen_root)
    rec = {"id": spec["id"], "desc": spec.get("desc", ""), "status": None, "known": [], "paths": 0,
           "z3_checks": 0, "z3_seconds": 0.0, "wall_s": 0.0, "replays": 0, "witness": None,
           "rounds": 0, "bounds": spec.get("bounds", {}), "pre": spec["pre"], "params": spec["params"]}
    cur = spec
    try:
        for rnd in range(MAX_KNOWN_ROUNDS + 1):
            res = run_worker(cur, gen_dir)
            if res["verdict"] == "INCONCLUSIVE" and "CANNOT_CONFIRM" in res.get("reason", "") and rnd == 0 \
                    and not rec["known"] and os.environ.get("VERIF_NO_RETRY") != "1":
                # one retry with a doubled CPU budget before giving up
                cur = dict(cur, budget=cur["budget"] * 2)
                rec["paths"] += res.get("paths", 0)
                rec["z3_checks"] += res.get("z3_checks", 0)
                rec["z3_seconds"] += res.get("z3_seconds", 0.0)
                rec["wall_s"] += res.get("wall_s", 0.0)
                rec["retried"] = True
                res = run_worker(cur, gen_dir)
            rec["rounds"] += 1
            rec["paths"] += res.get("paths", 0)
            rec["z3_checks"] += res.get("z3_checks", 0)
            rec["z3_seconds"] += res.get("z3_seconds", 0.0)
            rec["wall_s"] += res.get("wall_s", 0.0)
            if res.get("witness") is not None:
                rec["witness"] = res["witness"]
                rec["replays"] += 0
            if res["verdict"] == "CONFIRMED":
                rec["status"] = "confirmed"
                return rec
            if res["verdict"] == "INCONCLUSIVE":
                rec["status"] = "inconclusive"
                rec["reason"] = res.get("reason", "")
                return rec
            args = res["args"]
            rep = run_replay(cur, args, gen_dir)
            rec["replays"] += 1
            if rep.get("outcome") not in ("post_false", "exception"):
                rec["status"] = "noreplay"
                rec["reason"] = "counterexample %r did not reproduce concretely: %s / engine said: %s" % (
                    args, rep, res.get("message", "")[:300])
                return rec
            e = match_known(known, cur, args, rep)
            if e is None:
                rec["status"] = "violation"
                rec["args"] = args
                rec["replay"] = rep
                rec["message"] = res.get("message", "")
                rec["spec"] = {k: cur[k] for k in ("pid", "id", "family", "module", "call", "params", "pre", "fn",
                                                  "prelude", "src", "desc")}
                return rec
            rec["known"].append({"what": e["what"], "args": args, "signature": e.get("signature", {})})
            if e.get("predicate", "True").strip() == "True":
                # the listed finding covers this whole shard: nothing is left to explore behind it
                rec["status"] = "known_only"
                return rec
            cur = with_extra_pre(cur, ["not (%s)" % e["predicate"]])
        rec["status"] = "inconclusive"
        rec["reason"] = "more than %d known-finding exclusion rounds" % MAX_KNOWN_ROUNDS
        return rec
    finally:
        shutil.rmtree(gen_dir, ignore_errors=True)


def file_hashes(files):
    out = {}
    for f in files:
        p = os.path.join(ALT_REPO or "/repo", f)
        try:
            out[f] = hashlib.sha256(open(p, "rb").read()).hexdigest()[:16]
        except OSError:
            out[f] = "missing"
    return out


def main(pid, tier, only=None):
    t0 = time.time()
    seed = int(os.environ.get("VERIF_SEED", "0") or 0)
    hmod = importlib.import_module("harness." + pid.lower())
    known = load_known()
    os.makedirs(EVID, exist_ok=True)
    os.makedirs(os.path.join(EVID, "replay"), exist_ok=True)
    if not only:
        for old in os.listdir(os.path.join(EVID, "replay")):
            if old.startswith(pid + "-"):
                os.remove(os.path.join(EVID, "replay", old))
    os.makedirs(os.path.join(ROOT, ".gen"), exist_ok=True)
    gen_root = tempfile.mkdtemp(prefix="gen_", dir=os.path.join(ROOT, ".gen"))
    pre_checks = []
    traces = 0
    status_codes = set()
    try:
        # run-time validation of models/stubs the harness relies on
        for name, fn in getattr(hmod, "VALIDATIONS", []):
            n, bad = fn()
            traces += n
            pre_checks.append({"validation": name, "cases": n, "disagreements": len(bad), "first": bad[:5]})
            if bad:
                print("INCONCLUSIVE property=%s validation %s failed on %d cases, e.g. %r" % (pid, name, len(bad), bad[:3]))
                status_codes.add(2)
        shards = hmod.shards(tier, seed)
        if only:
            shards = [s for s in shards if re.search(only, s["id"])]
        random.Random(seed).shuffle(shards)
        # longest budgets first for better packing
        shards.sort(key=lambda s: -s["budget"])
        jobs = int(os.environ.get("VERIF_JOBS", "0") or 0) or min(16, os.cpu_count() or 4)
        recs = []
        with cf.ThreadPoolExecutor(max_workers=jobs) as ex:
            futs = {ex.submit(process_shard, s, gen_root, known): s for s in shards}
            for fut in cf.as_completed(futs):
                r = fut.result()
                recs.append(r)
                if os.environ.get("VERIF_VERBOSE"):
                    print("  [%s] %s paths=%d wall=%.0fs %s" % (r["status"], r["id"], r["paths"], r["wall_s"],
                                                               r.get("reason", "")[:200]), flush=True)
        recs.sort(key=lambda r: r["id"])
        violations = 0
        for r in recs:
            for k in r["known"]:
                print("KNOWN-FINDING: property=%s %s [shard %s, e.g. %s]" % (pid, k["what"], r["id"], json.dumps(k["args"])))
            if r["status"] == "violation":
                violations += 1
                rp = os.path.join(EVID, "replay", "%s.json" % r["id"].replace("/", "-"))
                with open(rp, "w") as fh:
                    json.dump({"shard": r["spec"], "args": r["args"], "observed": r["replay"],
                               "engine_message": r["message"]}, fh, indent=1)
                print("  counterexample: %s(%s) -> %s %s %s" % (r["spec"]["call"], json.dumps(r["args"]),
                                                               r["replay"].get("outcome"),
                                                               r["replay"].get("exc_type", ""),
                                                               r["replay"].get("where", "")))
                for k, v in (r["replay"].get("notes") or {}).items():
                    print("    %s: %s" % (k, v))
                print("VIOLATION property=%s replay=%s" % (pid, rp))
                status_codes.add(1)
            elif r["status"] == "inconclusive":
                print("INCONCLUSIVE property=%s shard=%s %s" % (pid, r["id"], r.get("reason", "")[:400]))
                status_codes.add(2)
            elif r["status"] == "noreplay":
                print("HARNESS-ERROR property=%s shard=%s %s" % (pid, r["id"], r.get("reason", "")[:600]))
                status_codes.add(3)
        confirmed = [r for r in recs if r["status"] == "confirmed"]
        known_only = [r for r in recs if r["status"] == "known_only"]
        samples = []
        for r in recs[:]:
            if r.get("witness") is not None and len(samples) < 6:
                samples.append({"shard": r["id"], "condition": r["desc"], "pre": r["pre"],
                                "explored_input": r["witness"], "status": r["status"]})
        for r in recs:
            if r["status"] == "violation" and len(samples) < 12:
                samples.append({"shard": r["id"], "counterexample": r["args"], "observed": r["replay"].get("outcome")})
        witness_n = sum(1 for r in recs if r.get("witness") is not None)
        cov = {
            "states": sum(r["paths"] for r in recs),
            "transitions": sum(r["z3_checks"] for r in recs),
            "traces_validated_against_impl": traces + sum(r["replays"] for r in recs),
            "samples": samples or [{"note": "no shard produced a witness"}],
            "exhaustive": False,
            "explanation": "states = symbolic execution paths explored by CrossHair over the real yamlpath code "
                           "(each path is an equivalence class of inputs decided by z3); transitions = z3 check() "
                           "calls; a shard counts as discharged only when CrossHair exhausted its path tree "
                           "(CONFIRMED over all paths within the pre: bounds).",
            "shards_total": len(recs),
            "shards_confirmed": len(confirmed),
            "shards_known_finding_only": len(known_only),
            "shards_inconclusive": sum(1 for r in recs if r["status"] == "inconclusive"),
            "shards_violating": violations,
            "shards_with_known_findings": sum(1 for r in recs if r["known"]),
            "reachability_witnesses": witness_n,
            "z3_seconds": round(sum(r["z3_seconds"] for r in recs), 1),
            "cpu_wall_sum_s": round(sum(r["wall_s"] for r in recs), 1),
            "functions_encoded": getattr(hmod, "FUNCTIONS", []),
            "repo_files_sha256_16": file_hashes(getattr(hmod, "FILES", [])),
            "stubs": getattr(hmod, "STUBS", []),
            "outside_claim": getattr(hmod, "OUTSIDE", []),
            "validations": pre_checks,
            "queries": [{"shard": r["id"], "status": r["status"], "paths": r["paths"], "z3_checks": r["z3_checks"],
                         "z3_s": round(r["z3_seconds"], 1), "wall_s": round(r["wall_s"], 1),
                         "bounds": r["bounds"], "pre": r["pre"],
                         "known": [k["what"] for k in r["known"]]} for r in recs],
        }
        ev = {
            "property_id": pid, "tier": tier, "seed": seed, "level": "model_checking", "coverage": cov,
            "assumptions": getattr(hmod, "ASSUMPTIONS", []) + [
                "CrossHair 0.0.110 symbolic models of int/bool/str/list and its path-exhaustion bookkeeping; z3 5.1.0",
                "engine prelude vf/prelude.py (format() of symbolic ints, literal_eval model validated per run)",
                "document shapes and path templates are concrete catalogues; leaves/indexes/terms are symbolic within the stated pre: bounds",
            ],
            "wall_s": round(time.time() - t0, 1),
            "violations": violations,
        }
        if not recs:
            print("INCONCLUSIVE property=%s no shards selected" % pid)
            status_codes.add(2)
            cov["states"] = max(cov["states"], 0)
        if not only:
            with open(os.path.join(EVID, "%s.json" % pid), "w") as fh:
                json.dump(ev, fh, indent=1, sort_keys=True)
        print("%s %s: %d shards, %d confirmed, %d inconclusive, %d violating, %d paths, %d z3 checks, z3 %.0fs, wall %.0fs" % (
            pid, tier, len(recs), len(confirmed), cov["shards_inconclusive"], violations, cov["states"],
            cov["transitions"], cov["z3_seconds"], time.time() - t0))
    finally:
        if gen_root:
            shutil.rmtree(gen_root, ignore_errors=True)
    for code in (1, 3, 2):
        if code in status_codes:
            return code
    return 0


def replay_file(pid, path):
    data = json.load(open(path))
    gen_root = tempfile.mkdtemp(prefix="rp_")
    try:
        rep = run_replay(data["shard"], data["args"], gen_root)
    finally:
        shutil.rmtree(gen_root, ignore_errors=True)
    print("replay %s %s(%s)" % (data["shard"]["id"], data["shard"]["call"], json.dumps(data["args"])))
    print(json.dumps(rep, indent=1))
    if rep.get("outcome") in ("post_false", "exception"):
        print("VIOLATION property=%s replay=%s" % (pid, path))
        return 1
    return 0


if __name__ == "__main__":
    a = sys.argv[1:]
    if len(a) >= 3 and a[1] == "--replay":
        sys.exit(replay_file(a[0], a[2]))
    only = None
    if "--only" in a:
        i = a.index("--only")
        only = a[i + 1]
        del a[i:i + 2]
    sys.exit(main(a[0], a[1] if len(a) > 1 else "quick", only))
