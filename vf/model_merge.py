"""Reference judge for document merges (README "Merge YAML/JSON/Compatible Files", option enums' docstrings).

Plain data: dict (insertion ordered) / list / frozenset-like set / scalars.  `judge(l, r, got, pol, root)` says
whether `got` is an acceptable result of merging r into l under the policies `pol`
(pol = dict(hashes=deep|left|right, arrays=all|left|right|unique, aoh=all|deep|left|right|unique,
sets=left|right|unique)).  ERR stands for "the merge was refused with a MergeException".
Where the documentation leaves a choice the judge accepts every documented-compatible outcome.
"""
ERR = "<merge error>"


def is_map(x):
    return isinstance(x, dict)


def is_list(x):
    return isinstance(x, list)


def is_set(x):
    return isinstance(x, (set, frozenset))


def is_scalar(x):
    return not (is_map(x) or is_list(x) or is_set(x))


def _subseq(small, big):
    it = 0
    for x in big:
        if it < len(small) and small[it] == x:
            it += 1
    return it == len(small)


def judge_unique(l, r, got):
    """unique: left elements keep their order; right elements already on the left are not appended; right
    elements not on the left are appended in order (a value repeated within r may appear once or as often)."""
    if not is_list(got) or len(got) < len(l):
        return False
    if got[:len(l)] != l:
        return False
    tail = got[len(l):]
    for e in tail:
        if e in l or e not in r:
            return False
    news = []
    for e in r:
        if e not in l and e not in news:
            news.append(e)
    for e in news:
        if e not in tail:
            return False
    # order of first occurrences follows r
    firsts = []
    for e in tail:
        if e not in firsts:
            firsts.append(e)
    return firsts == news and _subseq(tail, [e for e in r if e not in l])


def judge_aoh_deep(l, r, got, pol):
    """deep: right records merge into the first left record with the same identity key (first key of the
    first right record); unmatched right records are appended."""
    if not r or not is_map(r[0]) or not r[0]:
        return None
    idk = list(r[0].keys())[0]
    for e in r:
        if not is_map(e) or idk not in e:
            return got == ERR
    if got == ERR or not is_list(got):
        return False
    exp_len = len(l)
    work = [dict(x) if is_map(x) else x for x in l]
    pending = []      # (index in work, right record) merges, appended records
    for e in r:
        hit = None
        for k, lh in enumerate(work):
            if is_map(lh) and idk in lh and lh[idk] == e[idk]:
                hit = k
                break
        if hit is None:
            work.append(e)
            pending.append(("append", len(work) - 1, e))
            exp_len += 1
        else:
            pending.append(("merge", hit, e))
    if len(got) != exp_len:
        return False
    # replay: every position must be an acceptable deep merge of the records folded into it
    for k in range(len(got)):
        base = l[k] if k < len(l) else None
        folded = [e for (kind, idx, e) in pending if idx == k]
        if base is None:
            base, folded = folded[0], folded[1:]
        if not folded:
            if got[k] != base:
                return False
            continue
        if len(folded) > 1:
            continue            # several right records into one left record: order-dependent, not asserted
        if not _judge_map_deep(base, folded[0], got[k], pol):
            return False
    return True


def _judge_map_deep(l, r, got, pol):
    if not is_map(got):
        return False
    if set(got.keys()) != set(l.keys()) | set(r.keys()):
        return False
    if [k for k in got if k in l] != list(l.keys()):
        return False
    if [k for k in got if k not in l] != [k for k in r if k not in l]:
        return False
    for k in got:
        if k in l and k in r:
            if not judge(l[k], r[k], got[k], pol, False):
                return False
        elif k in l:
            if got[k] != l[k]:
                return False
        elif got[k] != r[k]:
            return False
    return True


def judge(l, r, got, pol, root=True):
    # ---- right-hand hash
    if is_map(r):
        if is_map(l):
            mode = pol["hashes"]
            if mode == "left":
                return got == l and list(got) == list(l)
            if mode == "right":
                return got == r and list(got) == list(r)
            if got == ERR:
                return _has_clash(l, r, pol)
            return _judge_map_deep(l, r, got, pol)
        if is_list(l) and root:
            if pol["aoh"] in ("left", "right"):
                return got != ERR      # a hash offered to a root array under left/right: conversion not documented
            return judge_list(l, [r], got, pol)
        return got == ERR                      # hash into set / scalar / (non-root) list
    # ---- right-hand array
    if is_list(r):
        if is_list(l):
            return judge_list(l, r, got, pol)
        if is_set(l) and root:
            return got != ERR                  # array into a root set: element-wise (not modelled further)
        if len(r) == 0 and not is_map(l):
            return got == ERR or got == l      # empty right-hand array over a scalar: refused or kept
        return got == ERR                      # array into hash / scalar
    # ---- right-hand set
    if is_set(r):
        if is_set(l):
            mode = pol["sets"]
            if mode == "left":
                return got == l
            if mode == "right":
                return got == r
            return is_set(got) and got == (set(l) | set(r))
        if root and (is_list(l) or is_map(l)):
            return got != ERR
        return got == ERR
    # ---- right-hand scalar
    if root:
        if is_list(l):
            return got == l + [r]
        if is_set(l):
            return is_set(got) and got == set(l) | {r}
        if is_map(l):
            return got == ERR                  # scalar into hash
        return got == r
    return got == r                            # right-hand scalars override


def _has_clash(l, r, pol):
    """Some shared key holds structurally incompatible values somewhere below (then ERR is acceptable)."""
    for k in r:
        if k in l:
            a, b = l[k], r[k]
            if is_map(b):
                if is_map(a):
                    if pol["hashes"] == "deep" and _has_clash(a, b, pol):
                        return True
                else:
                    return True
            elif is_list(b):
                if not is_list(a):
                    return True
                if b and is_map(b[0]) and pol["aoh"] == "deep":
                    return True      # identity-key problems are judged in judge_aoh_deep
            elif is_set(b):
                if not is_set(a):
                    return True
    return False


def judge_list(l, r, got, pol):
    if len(r) == 0:
        return got == l or (pol["arrays"] == "right" and got == [])
    if is_map(r[0]):
        mode = pol["aoh"]
        if mode == "all":
            return got == l + r
        if mode == "left":
            return got == l
        if mode == "right":
            return got == r
        if mode == "unique":
            return judge_unique(l, r, got)
        res = judge_aoh_deep(l, r, got, pol)
        return True if res is None else res
    mode = pol["arrays"]
    if mode == "all":
        return got == l + r
    if mode == "left":
        return got == l
    if mode == "right":
        return got == r
    return judge_unique(l, r, got)
