"""Reference evaluator for the documented YAML Path segment semantics (README "Supported YAML Path Segments").

Plain Python over the document objects; never calls yamlpath.  Works on structured segments:
  ("key", text) ("idx", i) ("slice", i, j) ("hslice", lo, hi) ("search", attr, op, term, inv)
  ("star",) ("deep",)
and returns coordinates [(parent, ref, node)] in document order (parent None = document root).
Only the combinations listed as *inside* in DESIGN.md C01 are defined; anything else raises Undefined.
"""
from ruamel.yaml.comments import CommentedSet


class Undefined(Exception):
    """The documentation does not define this combination: the harness must not assert on it."""


def _isint(text):
    t = text
    if t[:1] in ("-", "+"):
        t = t[1:]
    return t.isdigit() and len(t) > 0


# ----------------------------------------------------------------------------- typed comparison (C12 rules)
def _isfloat(text):
    t = text
    if t[:1] in ("-", "+"):
        t = t[1:]
    if t.count(".") != 1:
        return False
    a, b = t.split(".")
    return a.isdigit() and b.isdigit()


def _term_kind(term):
    t = term
    if _isint(t) and not (len(t.lstrip("+-")) > 1 and t.lstrip("+-")[0] == "0"):
        return "int", int(t)
    if _isfloat(t):
        return "float", float(t)
    return "text", None


def match_scalar(op, term, value):
    """Documented answer of `value OP term` for int / float / str / None values and numeric or text terms."""
    kind, tval = _term_kind(term)
    if isinstance(value, bool):
        raise Undefined("bool leaves are outside the model")
    if isinstance(value, (int, float)):
        same_kind = (kind == "int" and isinstance(value, int)) or (kind == "float" and isinstance(value, float))
        if op == "=":
            return value == tval if same_kind else str(value) == term
        if op == "^":
            return str(value).startswith(term)
        if op == "$":
            return str(value).endswith(term)
        if op == "%":
            return term in str(value)
        if kind == "text":
            return False
        return {">": value > tval, "<": value < tval, ">=": value >= tval, "<=": value <= tval}[op]
    if value is None:
        if op == "=" and term != "None":
            return False
        raise Undefined("null against 'None' or under ordering/affix operators")
    if isinstance(value, str):
        low = value.lower()
        if low in ("true", "false") or value == "None" or _isint(value) or _isfloat(value):
            raise Undefined("text that spells a bool/None/number")
        if op == "=":
            return value == term
        if op == "^":
            return value.startswith(term)
        if op == "$":
            return value.endswith(term)
        if op == "%":
            return term in value
        return {">": value > term, "<": value < term, ">=": value >= term, "<=": value <= term}[op]
    raise Undefined("container compared as a scalar")


def _m(op, term, value, inv):
    return match_scalar(op, term, value) != inv


# ----------------------------------------------------------------------------- segments
def _children(node):
    if isinstance(node, (CommentedSet, set)):
        return [(node, e, e) for e in node]
    if isinstance(node, dict):
        return [(node, k, v) for k, v in node.items()]
    if isinstance(node, list):
        return [(node, i, v) for i, v in enumerate(node)]
    return []


def _key(node, text):
    if isinstance(node, (CommentedSet, set)):
        return [(node, e, e) for e in node if e == text][:1]
    if isinstance(node, dict):
        if text in node:
            return [(node, text, node[text])]
        if _isint(text) and int(text) in node:
            return [(node, int(text), node[int(text)])]
        return []
    if isinstance(node, list):
        if _isint(text):
            i = int(text)
            if -len(node) <= i < len(node):
                return [(node, i % len(node), node[i])]
            return []
        out = []
        for e in node:          # Array-of-Hashes pass-through (nested lists pass through as well)
            out.extend(_key(e, text))
        return out
    return []


def _desc(node, attr_path):
    """First node reached by a dotted descendant path of plain keys, or [] (at most one per the in-list)."""
    cur = [(None, None, node)]
    for part in attr_path.split("."):
        nxt = []
        for (_p, _r, n) in cur:
            nxt.extend(_key(n, part))
        cur = nxt
    return cur


def _search(parent, ref, node, attr, op, term, inv):
    if isinstance(node, (CommentedSet, set)):
        if attr != ".":
            raise Undefined("named attribute search on a set")
        return [(node, e, e) for e in node if _m(op, term, e, inv)]
    if isinstance(node, list):
        out = []
        if attr == ".":
            all_hashes = len(node) > 0 and all(isinstance(e, dict) or e is None for e in node)
            for i, e in enumerate(node):
                if isinstance(e, (dict, list, set, CommentedSet)):
                    # a container member is not equal to any scalar term; in a list that is NOT an Array-of-Hashes the
                    # key names of a hash member are not what '.' searches (other operators on containers: undefined)
                    if op != "=" or all_hashes:
                        raise Undefined("'.' search over container members")
                    if inv:
                        out.append((node, i, e))
                    continue
                if _m(op, term, e, inv):
                    out.append((node, i, e))
            return out
        for i, e in enumerate(node):
            if isinstance(e, dict) and attr in e:
                hit = match_scalar_checked(op, term, e[attr])
            else:
                d = _desc(e, attr)
                if len(d) > 1:
                    raise Undefined("descendant attribute resolving to several nodes")
                hit = match_scalar_checked(op, term, d[0][2]) if d else False
            if hit != inv:
                out.append((node, i, e))
        return out
    if isinstance(node, dict):
        if attr == ".":
            return [(node, k, v) for k, v in node.items() if _m(op, term, k, inv)]
        if attr in node:
            return [(node, attr, node[attr])] if _m(op, term, node[attr], inv) else []
        d = _desc(node, attr)
        if len(d) > 1:
            raise Undefined("descendant attribute resolving to several nodes")
        hit = match_scalar_checked(op, term, d[0][2]) if d else False
        return [(parent, ref, node)] if hit != inv else []
    if attr != ".":
        raise Undefined("named attribute search on a scalar")
    return [(parent, ref, node)] if _m(op, term, node, inv) else []


def match_scalar_checked(op, term, value):
    if isinstance(value, (dict, list, set, CommentedSet)):
        raise Undefined("attribute holding a container")
    return match_scalar(op, term, value)


def _leaves(parent, ref, node, out):
    kids = _children(node)
    if isinstance(node, (dict, list, set, CommentedSet)):
        for (p, r, n) in kids:
            _leaves(p, r, n, out)
    else:
        out.append((parent, ref, node))


def _all_nodes(parent, ref, node, out):
    """Pre-order: the node itself, then its children (sets are not descended)."""
    out.append((parent, ref, node))
    if isinstance(node, dict) or isinstance(node, list):
        for (p, r, n) in _children(node):
            _all_nodes(p, r, n, out)


def ref_eval(doc, segs):
    cur = [(None, None, doc)]
    i = 0
    while i < len(segs):
        seg = segs[i]
        kind = seg[0]
        nxt = []
        if kind == "deep":
            if i == len(segs) - 1:
                for (p, r, n) in cur:
                    _leaves(p, r, n, nxt)
            else:
                follow = segs[i + 1]
                if follow[0] != "key" or _isint(follow[1]):
                    raise Undefined("'**' followed by something other than a plain key")
                for (p, r, n) in cur:
                    alln = []
                    _all_nodes(p, r, n, alln)
                    for (pp, rr, nn) in alln:
                        if isinstance(nn, dict) and _key(nn, follow[1]):
                            nxt.append((pp, rr, nn))
        else:
            for (p, r, n) in cur:
                if kind == "key":
                    nxt.extend(_key(n, seg[1]))
                elif kind == "idx":
                    if isinstance(n, list):
                        if -len(n) <= seg[1] < len(n):
                            nxt.append((n, seg[1] % len(n), n[seg[1]]))
                    elif isinstance(n, (set, CommentedSet)):
                        raise Undefined("index on a set (refused by the implementation)")
                elif kind == "slice":
                    if not isinstance(n, list):
                        raise Undefined("integer slice on a non-list")
                    lo, hi = seg[1], seg[2]
                    if (lo < 0) != (hi < 0) and lo != hi:
                        raise Undefined("mixed-sign slice")
                    if i != len(segs) - 1 and not (segs[i + 1][0] == "key" and not _isint(segs[i + 1][1])):
                        raise Undefined("slice followed by a non-key segment")
                    if lo == hi:
                        if -len(n) <= lo < len(n):
                            nxt.append((n, lo % len(n), n[lo]))
                    else:
                        for k in range(*slice(lo, hi).indices(len(n))):
                            nxt.append((n, k, n[k]))
                elif kind == "hslice":
                    if not isinstance(n, dict):
                        raise Undefined("hash slice on a non-hash")
                    for k, v in n.items():
                        if seg[1] <= str(k) <= seg[2]:
                            nxt.append((n, k, v))
                elif kind == "search":
                    nxt.extend(_search(p, r, n, seg[1], seg[2], seg[3], seg[4]))
                elif kind == "anchor":
                    # every child of the collection carrying the anchor (the anchored node and each alias of it)
                    def _has(x):
                        anc = getattr(x, "anchor", None)
                        return anc is not None and getattr(anc, "value", None) == seg[1]
                    if isinstance(n, dict):
                        nxt.extend((n, k, v) for k, v in n.items() if _has(k) or _has(v))
                    else:
                        nxt.extend((pp, rr, nn) for (pp, rr, nn) in _children(n) if _has(nn))
                elif kind == "star":
                    if isinstance(n, (set, CommentedSet)):
                        raise Undefined("'*' over a set")
                    nxt.extend(_children(n))
                else:
                    raise Undefined("segment kind %r" % (kind,))
        cur = nxt
        i += 1
    return cur


# ----------------------------------------------------------------------------- validation against the repository's tests
def segs_from_path(text):
    """Map a path text to model segments using yamlpath's parser (validation aid only)."""
    from yamlpath import YAMLPath
    from yamlpath.enums import PathSegmentTypes as T, PathSearchMethods as SM
    ops = {SM.EQUALS: "=", SM.STARTS_WITH: "^", SM.ENDS_WITH: "$", SM.CONTAINS: "%", SM.GREATER_THAN: ">",
           SM.LESS_THAN: "<", SM.GREATER_THAN_OR_EQUAL: ">=", SM.LESS_THAN_OR_EQUAL: "<="}
    out = []
    for stype, attrs in YAMLPath(text).escaped:
        if stype == T.KEY:
            out.append(("key", str(attrs)))
        elif stype == T.INDEX:
            if isinstance(attrs, int):
                out.append(("idx", attrs))
            else:
                lo, hi = str(attrs).split(":", 1)
                if _isint(lo) and _isint(hi):
                    out.append(("slice", int(lo), int(hi)))
                else:
                    out.append(("hslice", lo, hi))
        elif stype == T.SEARCH:
            if attrs.method not in ops:
                raise Undefined("regex")
            out.append(("search", attrs.attribute, ops[attrs.method], attrs.term, attrs.inverted))
        elif stype == T.MATCH_ALL:
            out.append(("star",))
        elif stype == T.TRAVERSE:
            out.append(("deep",))
        else:
            raise Undefined(str(stype))
    return out


def validate_against_repo_tests():
    """Push the (document, path, expected values) triples of tests/test_processor.py::test_get_nodes through
    the model.  Returns (number compared, list of disagreements)."""
    import ast
    from yamlpath.common import Parsers
    src = open("/repo/tests/test_processor.py").read()
    tree = ast.parse(src)
    fn = None
    for n in ast.walk(tree):
        if isinstance(n, ast.FunctionDef) and n.name == "test_get_nodes":
            fn = n
    if fn is None:
        return 0, ["tests/test_processor.py::test_get_nodes not found"]
    yamldata = None
    for n in ast.walk(fn):
        if isinstance(n, ast.Assign) and getattr(n.targets[0], "id", "") == "yamldata":
            yamldata = ast.literal_eval(n.value)
    triples = []
    for dec in fn.decorator_list:
        if isinstance(dec, ast.Call) and len(dec.args) == 2 and isinstance(dec.args[1], ast.List):
            for elt in dec.args[1].elts:
                try:
                    triples.append(ast.literal_eval(elt))
                except Exception:
                    pass
    yaml = Parsers.get_yaml_editor()
    data = yaml.load(yamldata)
    n, bad = 0, []
    for path, results, mustexist, _default in triples:
        if not mustexist:
            continue
        try:
            got = [c[2] for c in ref_eval(data, segs_from_path(path))]
        except Undefined:
            continue
        except Exception as ex:   # parser errors etc.
            bad.append("%s: model raised %s" % (path, type(ex).__name__))
            continue
        flat = []
        for r in results:
            if isinstance(r, list):
                flat.extend(r)
            else:
                flat.append(r)
        n += 1
        if [str(x) for x in got] != [str(x) for x in flat]:
            bad.append("%s: model %r, test expects %r" % (path, got, flat))
    return n, bad
