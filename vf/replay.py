"""Concrete replay of a shard's condition in a plain interpreter (no CrossHair tracing).

usage: python -m vf.replay <replay.json>   (file has {"shard": spec, "args": {...}})
prints one JSON line: {"outcome": ok|post_false|exception|pre_false, "exc_type", "where", "trace", "notes"}
"""
import json
import os
import sys
import traceback


def _where(tb):
    frames = traceback.extract_tb(tb)
    repo = [f for f in frames if f.filename.startswith("/repo/")]
    f = (repo or frames)[-1]
    return "%s:%s" % (os.path.basename(f.filename), f.name)


def run(spec, args):
    os.environ["VERIF_REPLAY"] = "1"
    import importlib
    from vf import prelude  # noqa: F401  (inert without tracing; keeps imports identical)
    for m in spec.get("prelude", []):
        importlib.import_module(m)
    from vf.worker import _load
    from vf import shard as _sh
    mod = _load(spec)
    fn = getattr(mod, spec["fn"])
    ns = dict(vars(mod))
    ns.update(args)
    for p in spec.get("pre", []):
        try:
            ok = eval(p, ns)
        except Exception as ex:
            return {"outcome": "pre_false", "exc_type": type(ex).__name__, "where": "pre: " + p}
        if not ok:
            return {"outcome": "pre_false", "where": "pre: " + p}
    try:
        r = fn(**args)
    except Exception as ex:
        return {"outcome": "exception", "exc_type": type(ex).__name__, "exc_msg": str(ex)[:300],
                "where": _where(ex.__traceback__), "trace": traceback.format_exc()[-3000:],
                "notes": dict(_sh.NOTES)}
    return {"outcome": "ok" if r else "post_false", "notes": dict(_sh.NOTES)}


def main():
    data = json.load(open(sys.argv[1]))
    spec = dict(data["shard"])
    spec.setdefault("gen_dir", os.environ.get("VERIF_GEN_DIR", "/verif/.gen/replay"))
    print(json.dumps(run(spec, data["args"]), default=repr))


if __name__ == "__main__":
    main()
