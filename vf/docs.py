"""Document shape catalogue.  A shape fixes which containers nest where; the leaves a, b, c are the
symbolic (solver) variables.  Documents are built directly from ruamel's CommentedMap/CommentedSeq/
CommentedSet with native Python scalars - what the round-trip loader yields for plain scalars.

Each shape: (builder, focus, description).  `focus` is the dot-notation path of the collection the
templates are applied to ("" = the document root).
"""
from ruamel.yaml.comments import CommentedMap, CommentedSeq, CommentedSet


def _m(*pairs):
    return CommentedMap(list(pairs))


def _s(*items):
    return CommentedSeq(list(items))


def _anc(value, name="t"):
    """A ruamel scalar carrying an anchor (what the round-trip loader yields for `&t value`); using the same object at
    several places is what the loader yields for its aliases `*t`."""
    from ruamel.yaml.scalarstring import PlainScalarString
    return PlainScalarString(value, anchor=name)


def _ancmap(name, *pairs):
    m = CommentedMap(list(pairs))
    m.yaml_set_anchor(name, always_dump=True)
    return m


def _lanc(a, b):
    t = _anc("one")
    return _m(("l", _s(t, a, t, b, t)))


def _manc(a):
    t = _anc("alpha")
    return _m(("h", _m(("first", t), ("second", a), ("third", t))))


def _aanc(a, b):
    h = _ancmap("t", ("n", b))
    return _m(("w", _s(h, _m(("n", a)), h)))


def _set(*items):
    s = CommentedSet()
    for i in items:
        s.add(i)
    return s


SHAPES = {
    # lists of scalars
    "L3": (lambda a, b, c: _s(a, b, c), "", "root list [a, b, c]"),
    "L2": (lambda a, b, c: _s(a, b), "", "root list [a, b]"),
    "L1": (lambda a, b, c: _s(a), "", "root list [a]"),
    "L0": (lambda a, b, c: _s(), "", "empty root list"),
    "ML3": (lambda a, b, c: _m(("k", 0), ("l", _s(a, b, c)), ("z", 1)), "l", "{k: 0, l: [a, b, c], z: 1}"),
    "ML4": (lambda a, b, c: _m(("l", _s(a, b, c, a))), "l", "{l: [a, b, c, a]}"),
    "ML0": (lambda a, b, c: _m(("l", _s()), ("e", _m())), "l", "{l: [], e: {}}"),
    "LNULL": (lambda a, b, c: _m(("l", _s(a, None, b))), "l", "{l: [a, null, b]}"),
    "LMIX": (lambda a, b, c: _m(("l", _s(a, "x", None, _m(("p", 5)), b))), "l", "{l: [a, 'x', null, {p: 5}, b]}"),
    "LSTR": (lambda a, b, c: _m(("l", _s("ab", a, "b"))), "l", "{l: ['ab', a, 'b']}"),
    "LL": (lambda a, b, c: _m(("l", _s(_s(a, b), _s(), _s(c)))), "l", "{l: [[a, b], [], [c]]}"),
    "LTXT": (lambda a, b, c: _m(("l", _s("ab", "b", "abc", "ba", "B", "a b"))), "l", "{l: [ab, b, abc, ba, B, 'a b']} (text elements)"),
    "MTXT": (lambda a, b, c: _m(("h", _m(("ab", "x"), ("b", "ab"), ("ba", "b")))), "h", "{h: {ab: x, b: ab, ba: b}} (text keys and values)"),
    "LFLT": (lambda a, b, c: _m(("l", _s(1.5, 2, 2.5, -0.5, 1.5, 2.0, 1, 1.0))), "l", "{l: [1.5, 2, 2.5, -0.5, 1.5, 2.0, 1, 1.0]} (concrete floats, incl. integers and the floats equal to them)"),
    "AOHF": (lambda a, b, c: _m(("w", _s(_m(("n", 1), ("p", 1.5)), _m(("n", 2), ("p", 2)), _m(("n", 3), ("p", 2.5))))), "w",
             "{w: [{n: 1, p: 1.5}, {n: 2, p: 2}, {n: 3, p: 2.5}]} (concrete float attributes)"),
    # hashes
    "M3": (lambda a, b, c: _m(("p", a), ("q", b), ("r", c)), "", "root hash {p: a, q: b, r: c}"),
    "M0": (lambda a, b, c: _m(), "", "empty root hash"),
    "MM": (lambda a, b, c: _m(("h", _m(("p", a), ("q", b))), ("g", _m(("p", c)))), "h", "{h: {p: a, q: b}, g: {p: c}}"),
    "MNULL": (lambda a, b, c: _m(("h", _m(("p", None), ("q", a)))), "h", "{h: {p: null, q: a}}"),
    "MINT": (lambda a, b, c: _m(("h", _m((1, a), (2, b)))), "h", "{h: {1: a, 2: b}} (integer keys)"),
    "MSTRNUM": (lambda a, b, c: _m(("h", _m(("1", a), ("02", b)))), "h", "{h: {'1': a, '02': b}} (numeric-looking string keys)"),
    # arrays of hashes
    "AOH3": (lambda a, b, c: _m(("w", _s(_m(("n", 1), ("p", a)), _m(("n", 2), ("p", b)), _m(("n", 3), ("p", c))))), "w",
             "{w: [{n: 1, p: a}, {n: 2, p: b}, {n: 3, p: c}]}"),
    "AOHX": (lambda a, b, c: _m(("w", _s(_m(("n", 1), ("p", a)), _m(("n", 2), ("p", b)), _m(("m", c))))), "w",
             "{w: [{n: 1, p: a}, {n: 2, p: b}, {m: c}]} (last lacks p)"),
    "AOHN": (lambda a, b, c: _m(("w", _s(_m(("p", a)), None, _m(("p", b))))), "w", "{w: [{p: a}, null, {p: b}]}"),
    "AOHP0": (lambda a, b, c: _m(("w", _s(_m(("p", None)), _m(("p", a)), _m(("q", b))))), "w", "{w: [{p: null}, {p: a}, {q: b}]}"),
    "AOHD": (lambda a, b, c: _m(("w", _s(_m(("d", _m(("p", a)))), _m(("d", _m(("p", b)))), _m(("d", _m(("q", c))))))), "w",
             "{w: [{d: {p: a}}, {d: {p: b}}, {d: {q: c}}]}"),
    "HOH": (lambda a, b, c: _m(("t", _m(("x", _m(("p", a))), ("y", _m(("p", b))), ("z", _m(("q", c)))))), "t",
            "{t: {x: {p: a}, y: {p: b}, z: {q: c}}}"),
    "LHASH": (lambda a, b, c: _m(("l", _s(a, _m(("p", 1)), b))), "l", "{l: [a, {p: 1}, b]} (list holding a hash)"),
    # anchored nodes and their aliases inside one collection
    "LANC": (lambda a, b, c: _lanc(a, b), "l", "{l: [&t one, a, *t, b, *t]} (anchored scalar and two aliases in one list)"),
    "LANC1": (lambda a, b, c: _m(("l", _s(a, _anc("uno"), b))), "l", "{l: [a, &t uno, b]} (one anchored element)"),
    "MANC": (lambda a, b, c: _manc(a), "h", "{h: {first: &t alpha, second: a, third: *t}}"),
    "AANC": (lambda a, b, c: _aanc(a, b), "w", "{w: [&t {n: b}, {n: a}, *t]} (anchored hash and its alias in one list)"),
    # sets and scalars
    "SET": (lambda a, b, c: _m(("s", _set("a", "b", "cc"))), "s", "{s: !!set {a, b, cc}}"),
    "SETI": (lambda a, b, c: _m(("s", _set(1, 2, 3))), "s", "{s: !!set {1, 2, 3}}"),
    "SCAL": (lambda a, b, c: _m(("v", a), ("t", "txt"), ("n", None), ("b", True)), "v", "{v: a, t: txt, n: null, b: true}"),
    "ROOTSCALAR": (lambda a, b, c: a, "", "scalar document"),
}


def build(shape, a, b, c):
    return SHAPES[shape][0](a, b, c)


def focus(shape):
    return SHAPES[shape][1]


def describe(shape):
    return SHAPES[shape][2]


class _Mark:
    def __init__(self, n):
        self.n = n


def used_leaves(shape):
    """Which of the leaves a, b, c the shape actually places in the document."""
    marks = [_Mark(0), _Mark(1), _Mark(2)]
    doc = build(shape, *marks)
    seen = set()

    def walk(n):
        if isinstance(n, _Mark):
            seen.add(n.n)
        elif isinstance(n, dict):
            for v in n.values():
                walk(v)
        elif isinstance(n, (list, set, CommentedSet)):
            for v in n:
                walk(v)
    walk(doc)
    return sorted(seen)
