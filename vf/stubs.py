"""Environment stubs: in-memory file system with fault injection, loader stubs, eyaml cipher stand-in."""
import io
from types import SimpleNamespace
from subprocess import CalledProcessError


class FakeFS:
    """The k-th I/O operation fails (fault_at = 0: none), possibly half-applied (`partial` bytes reached the medium).

    Operations counted: exists, remove, copy2, open-for-read, open-for-write (truncates), close-of-a-written-file
    (the moment the data reach the medium)."""

    def __init__(self, files, fault_at=0, partial=0):
        self.files = dict(files)
        self.n = 0
        self.fault_at = fault_at
        self.partial = partial
        self.log = []

    def tick(self, what):
        self.n += 1
        self.log.append(what)
        if self.n == self.fault_at:
            raise OSError("injected fault at operation %d (%s)" % (self.n, what))

    def exists(self, p):
        self.tick("exists " + p)
        return p in self.files

    def isfile(self, p):
        return p in self.files

    def remove(self, p):
        self.tick("remove " + p)
        del self.files[p]

    def copy2(self, a, b):
        self.n += 1
        self.log.append("copy2 %s %s" % (a, b))
        if self.n == self.fault_at:
            self.files[b] = self.files[a][: self.partial]
            raise OSError("injected fault at operation %d (copy2)" % self.n)
        self.files[b] = self.files[a]

    def open(self, p, mode="r", encoding=None):
        fs = self
        if "r" in mode:
            fs.tick("open-r " + p)
            return io.BytesIO(fs.files[p]) if "b" in mode else io.StringIO(fs.files[p].decode())
        fs.tick("open-w " + p)
        fs.files[p] = b""          # truncation happens at open

        base = io.BytesIO if "b" in mode else io.StringIO

        class W(base):
            def close(s):
                if s.closed:
                    return
                data = s.getvalue()
                data = data.encode() if isinstance(data, str) else data
                fs.n += 1
                fs.log.append("write " + p)
                if fs.n == fs.fault_at:
                    fs.files[p] = data[: fs.partial]
                    base.close(s)
                    raise OSError("injected fault at operation %d (write %s)" % (fs.n, p))
                fs.files[p] = data
                base.close(s)

            def __exit__(s, *a):
                s.close()
                return False
        return W()

    def mutating_ops(self):
        return [x for x in self.log if x.split()[0] in ("remove", "copy2", "open-w", "write")]


# ----------------------------------------------------------------------------- eyaml stand-in
def pair(path):
    return "OLD" if "old" in path else "NEW"


def enc(pairid, text):
    # the payload is hex so that it survives the whitespace/line-break normalisation real ciphertext gets
    return "ENC[" + pairid + "," + text.encode("utf-8").hex()[::-1] + "]"


def fake_eyaml_run(cmd, stdout=None, input=None, check=True, shell=False):
    """Stand-in for subprocess.run(['eyaml', 'encrypt'|'decrypt', ...]): a keyed reversible cipher."""
    if isinstance(cmd, str):
        cmd = cmd.split()
    mode = cmd[1]
    pub = [c.split("=", 1)[1] for c in cmd if c.startswith("--pkcs7-public-key=")]
    prv = [c.split("=", 1)[1] for c in cmd if c.startswith("--pkcs7-private-key=")]
    text = input.decode("ascii") if isinstance(input, bytes) else str(input)
    if mode == "encrypt":
        out = enc(pair(pub[0]), text)
    else:
        text = text.replace("\n", "").replace(" ", "")
        if not (text.startswith("ENC[") and text.endswith("]")):
            raise CalledProcessError(1, cmd)
        p, payload = text[4:-1].split(",", 1)
        if p != pair(prv[0]):
            raise CalledProcessError(1, cmd)
        out = bytes.fromhex(payload[::-1]).decode("utf-8")
    return SimpleNamespace(stdout=out.encode("ascii"))
