"""Run one shard (one condition = one solver query group) in this process.

usage: python -m vf.worker <spec.json>      prints one JSON result line on stdout

spec: {"id", "src", "fn", "budget", "per_path", "prelude": [module names], "gen_dir"}
result: {"id", "verdict": CONFIRMED|REFUTED|INCONCLUSIVE, "reason", "message", "args": {...},
         "paths", "z3_checks", "z3_seconds", "wall_s", "witness": {...} | None, "twin_paths"}
"""
import ast
import collections
import importlib
import json
import os
import sys
import time
import traceback


def _load(spec):
    gen_dir = spec["gen_dir"]
    os.makedirs(gen_dir, exist_ok=True)
    modname = "shard_" + "".join(c if c.isalnum() else "_" for c in spec["id"])
    path = os.path.join(gen_dir, modname + ".py")
    with open(path, "w") as fh:
        fh.write(spec["src"])
    if gen_dir not in sys.path:
        sys.path.insert(0, gen_dir)
    mod = importlib.import_module(modname)
    return mod


def parse_call(message, fnname):
    """Extract the argument binding from '... when calling fn(a, b=1) (which ...'."""
    marker = "when calling " + fnname + "("
    i = message.find(marker)
    if i < 0:
        return None
    j = i + len("when calling ")
    depth = 0
    k = j + len(fnname)
    instr = None
    while k < len(message):
        c = message[k]
        if instr:
            if c == "\\":
                k += 1
            elif c == instr:
                instr = None
        elif c in "'\"":
            instr = c
        elif c in "([{":
            depth += 1
        elif c in ")]}":
            depth -= 1
            if depth == 0:
                break
        k += 1
    call = message[j:k + 1]
    try:
        node = ast.parse(call, mode="eval").body
        pos = [ast.literal_eval(a) for a in node.args]
        kws = {kw.arg: ast.literal_eval(kw.value) for kw in node.keywords}
    except Exception:
        return None
    return {"pos": pos, "kw": kws, "text": call}


def bind(fn, parsed):
    import inspect
    sig = inspect.signature(fn)
    ba = sig.bind(*parsed["pos"], **parsed["kw"])
    ba.apply_defaults()
    return dict(ba.arguments)


def analyze(fn, budget, per_path):
    from crosshair.core_and_libs import analyze_function, run_checkables
    from crosshair.options import AnalysisOptionSet, AnalysisKind
    stats = collections.Counter()
    opts = AnalysisOptionSet(per_condition_timeout=float(budget), per_path_timeout=float(per_path),
                             report_all=True, analysis_kind=[AnalysisKind.PEP316],
                             max_uninteresting_iterations=sys.maxsize)
    chk = analyze_function(fn, opts)
    for c in chk:
        if hasattr(c, "options"):
            c.options.stats = stats
    msgs = run_checkables(chk)
    return msgs, stats.get("num_paths", 0), len(chk)


def main():
    spec = json.load(open(sys.argv[1]))
    t0 = time.time()
    out = {"id": spec["id"], "verdict": "INCONCLUSIVE", "reason": "", "message": "", "args": None,
           "paths": 0, "z3_checks": 0, "z3_seconds": 0.0, "witness": None, "twin_paths": 0}
    try:
        sys.setrecursionlimit(10000)
        from vf import prelude
        for m in spec.get("prelude", []):
            importlib.import_module(m)
        mod = _load(spec)
        fn = getattr(mod, spec["fn"])
        twin = getattr(mod, spec["fn"] + "__reach", None)
        if twin is not None:
            msgs, npaths, _ = analyze(twin, min(60.0, float(spec["budget"])), spec["per_path"])
            out["twin_paths"] = npaths
            wit = None
            for m in msgs:
                # POST_FAIL: the end of the body was reached; EXEC_ERR: the body was entered and
                # raised (the main analysis below reports that) - both witness reachability
                if m.state.name in ("POST_FAIL", "EXEC_ERR"):
                    p = parse_call(m.message, twin.__name__)
                    if p is not None:
                        wit = bind(twin, p)
            if wit is None:
                out["reason"] = "vacuity guard: reachability twin was not refuted (%s)" % (
                    "; ".join("%s %s" % (m.state.name, m.message[:200]) for m in msgs))
                out["wall_s"] = time.time() - t0
                print(json.dumps(out))
                return
            out["witness"] = wit
        msgs, npaths, nchk = analyze(fn, spec["budget"], spec["per_path"])
        out["paths"] = npaths
        out["z3_checks"] = prelude.Z3_STATS["checks"]
        out["z3_seconds"] = round(prelude.Z3_STATS["seconds"], 3)
        out["z3_unknown"] = prelude.Z3_STATS["unknown"]
        if nchk == 0:
            out["reason"] = "no condition found on function"
        states = [m.state.name for m in msgs]
        bad = [m for m in msgs if m.state.name in ("POST_FAIL", "EXEC_ERR", "POST_ERR")]
        if bad:
            m = bad[0]
            out["message"] = m.message[:2000]
            p = parse_call(m.message, fn.__name__)
            if p is None:
                out["reason"] = "counterexample could not be parsed: " + m.message[:300]
            else:
                out["verdict"] = "REFUTED"
                out["args"] = bind(fn, p)
                out["cx_state"] = m.state.name
        elif states and all(s == "CONFIRMED" for s in states):
            out["verdict"] = "CONFIRMED"
        else:
            out["reason"] = "; ".join("%s: %s" % (m.state.name, m.message[:300]) for m in msgs) or "no verdict"
    except BaseException as ex:  # engine failure: inconclusive, never a verdict
        out["reason"] = "worker error: %s: %s\n%s" % (type(ex).__name__, ex, traceback.format_exc()[-1500:])
    out["wall_s"] = round(time.time() - t0, 2)
    print(json.dumps(out, default=repr))


if __name__ == "__main__":
    main()
