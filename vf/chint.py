"""C14-only over-approximation: int(<symbolic str>) raises ValueError (unless the text is an optional sign and decimal
digits only) or returns an arbitrary int in [-99, 99].

Every real behaviour of int(str) is one of the two, so CONFIRMED under this abstraction implies the
crash-freedom claim for the real int(); counterexamples are replayed on the real code before they count.
"""
import builtins

import crosshair.core_and_libs  # noqa: F401
import crosshair.core as _core
from crosshair import NoTracing
from crosshair.core import proxy_for_type
from crosshair.libimpl import builtinslib as _bl
from crosshair.statespace import context_statespace
from crosshair.util import IgnoreAttempt

_ch_int = _core._PATCH_REGISTRATIONS[builtins.int]


def _int_abs(*a, **kw):
    with NoTracing():
        sym = len(a) == 1 and not kw and isinstance(a[0], _bl.AnySymbolicStr)
        n = context_statespace().uniq() if sym else 0
    if sym:
        if proxy_for_type(bool, "int_fails_%s" % n):
            # refinement: int() never fails on an optional sign followed by decimal digits (Unicode category Nd) only
            # (texts here are far below the 4300-digit conversion limit)
            txt = a[0]
            body = txt[1:] if (len(txt) > 1 and (txt[0] == "-" or txt[0] == "+")) else txt
            if len(body) > 0 and body.isdecimal():
                raise IgnoreAttempt("int() cannot fail on decimal digits")
            raise ValueError("invalid literal for int() with base 10 (abstracted)")
        v = proxy_for_type(int, "int_value_%s" % n)
        # formatting an unbounded symbolic int forks once per digit count: keep two digits and a sign
        # (the parser only stores and formats the value; argued, not solved)
        if not (-99 <= v <= 99):
            raise IgnoreAttempt("abstract int outside [-99, 99]")
        return v
    with NoTracing():
        return _ch_int(*a, **kw)


_core._PATCH_REGISTRATIONS[builtins.int] = _int_abs
