"""Shared harness helpers: quiet logger, document builders, plain-data snapshots."""
from types import SimpleNamespace

from ruamel.yaml.comments import CommentedMap, CommentedSeq, CommentedSet

from yamlpath import YAMLPath, Processor
from yamlpath.exceptions import YAMLPathException
from yamlpath.wrappers import ConsolePrinter, NodeCoords

LOG = ConsolePrinter(SimpleNamespace(quiet=True, verbose=False, debug=False))


def cmap(*pairs):
    return CommentedMap(list(pairs))


def cseq(*items):
    return CommentedSeq(list(items))


def cset(*items):
    s = CommentedSet()
    for i in items:
        s.add(i)
    return s


def plain(node):
    """Plain-data image of a document (dicts keep key order as list of pairs)."""
    if isinstance(node, CommentedSet) or isinstance(node, (set, frozenset)):
        return ("set", [plain(x) for x in node])
    if isinstance(node, dict):
        return ("map", [(k, plain(v)) for k, v in node.items()])
    if isinstance(node, (list, tuple)):
        return ("seq", [plain(v) for v in node])
    return node


def snapshot(node):
    """Deep snapshot incl. container identities, to detect any mutation by a read."""
    if isinstance(node, CommentedSet):
        return ("set", id(node), [snapshot(x) for x in node])
    if isinstance(node, dict):
        return ("map", id(node), [(k, snapshot(v)) for k, v in node.items()])
    if isinstance(node, list):
        return ("seq", id(node), [snapshot(v) for v in node])
    return ("leaf", node)
