"""Shard = one condition (typed symbolic parameters + pre/post) rendered to a real module."""
import os

NOTES = {}


def note(**kw):
    """Record public-API level details of the current call; active only in concrete replays."""
    if os.environ.get("VERIF_REPLAY") == "1":
        for k, v in kw.items():
            try:
                NOTES[k] = v if isinstance(v, (int, str, bool, type(None))) else repr(v)
            except Exception as ex:  # pragma: no cover
                NOTES[k] = "<unprintable %s>" % type(ex).__name__


def render(module, call, params, pre, extra_imports=()):
    sig = ", ".join("%s: %s" % (n, t) for n, t in params)
    pre_lines = "".join("    pre: %s\n" % p for p in pre)
    imports = "".join("import %s\n" % m for m in extra_imports)
    return (
        "from typing import List, Optional, Tuple, Dict\n"
        "%sfrom %s import *\n\n\n"
        "def cond(%s) -> bool:\n"
        '    """\n%s    post: _\n    """\n'
        "    return %s\n\n\n"
        "def cond__reach(%s) -> bool:\n"
        '    """\n%s    post: False\n    """\n'
        "    %s\n"
        "    return True\n"
    ) % (imports, module, sig, pre_lines, call, sig, pre_lines, call)


def shard(pid, name, module, call, params, pre, family=None, budget=180, per_path=30,
          prelude=(), desc="", bounds=None, kind="V"):
    """Build a shard spec (a plain dict, JSON-serialisable)."""
    return {
        "pid": pid,
        "id": "%s/%s" % (pid, name),
        "family": family or name.split("/")[0],
        "module": module,
        "call": call,
        "params": [list(p) for p in params],
        "pre": list(pre),
        "fn": "cond",
        "budget": budget,
        "per_path": per_path,
        "prelude": list(prelude),
        "desc": desc,
        "bounds": bounds or {},
        "kind": kind,
        "src": render(module, call, params, pre),
    }
